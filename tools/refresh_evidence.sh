#!/bin/bash
# re-run every claimed quick check on the current (clean) /repo tree so that the committed evidence is from the
# unchanged tree, then validate every evidence file (schema, discharged == obligations, no violations).
# Run this (and commit evidence/) after any session that ran checks against changed trees.
cd /verif
export VERIF_SEED=${VERIF_SEED:-1} VERIF_TIER=quick
test -z "$(git -C /repo status --porcelain)" || { echo "/repo not clean"; exit 1; }
rc=0
for id in $(jq -r '.checks[].property_id' MANIFEST.json); do
  rm -f evidence/$id.json
  ./check $id quick | tail -1; r=${PIPESTATUS[0]}
  [ "$r" = 0 ] || { echo "check $id exited $r"; rc=1; }
done
$(command -v python3-vt || echo python3) tools/validate_evidence.py || rc=1
exit $rc
