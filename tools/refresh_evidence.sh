#!/bin/bash
# re-run every claimed quick check on the current (clean) /repo tree so that the committed evidence is from the unchanged tree
cd /verif
test -z "$(git -C /repo status --porcelain)" || { echo "/repo not clean"; exit 1; }
for id in $(jq -r '.checks[].property_id' MANIFEST.json); do ./check $id quick | tail -1; done
