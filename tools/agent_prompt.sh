#!/bin/bash
# prints the prompt given to a mutation sub-agent for property $1 (worktree /tmp/wt-$1)
ID=$1
TITLE=$(jq -r "select(.id==\"$ID\")|.title" /verif/properties.jsonl)
STMT=$(jq -r "select(.id==\"$ID\")|.statement" /verif/properties.jsonl)
cat <<P
You are helping test a verification tool by playing the role of a developer who introduces a subtle regression into a Go code base.

The code base is MinterTeam/minter-go-node (a Tendermint ABCI blockchain node: coins, bonding-curve conversions, swap pools, staking, multisig, checks, rewards). You have your own scratch git worktree of it at /tmp/wt-$ID (work ONLY there; never touch /repo or /verif; do not read anything under /verif).

Semantic property "$TITLE":
$STMT

Task: produce TWO different, independent changes (call them a and b) to the NON-test Go source in /tmp/wt-$ID, each of which breaks the property above while (1) the repository still compiles and (2) the existing test suite still passes. Each change should be small and realistic (the kind of slip a maintainer could make in a refactor or "optimisation"), and should need something specific to manifest: an unusual input or boundary value, a particular multi-step sequence of operations, a particular interleaving or crash point, or two cooperating sites that each look fine alone — NOT something ordinary use or the existing tests would expose at once. Prefer changes in the core logic that implements the property (under coreV2/, formula/, rlp/, crypto/, math/) rather than in API or CLI glue. The two changes should be in different functions.

For each change also write a demonstration: a Go test (or small program) that FAILS with the change applied and PASSES on the unmodified worktree, showing the property being violated on the real code.

Environment: the sandbox is offline. In every shell command first run:
  export GOFLAGS=-mod=mod GOPROXY=off GOSUMDB=off GOTOOLCHAIN=local
Build: (cd /tmp/wt-$ID && go build ./...). Run the existing tests at least for every package you touched and for ./coreV2/... and ./tests/... e.g. (cd /tmp/wt-$ID && go test -vet=off -count=1 ./coreV2/... ./tests/... ./formula/... ./rlp/... ./crypto/... 2>&1 | tail -40). They must all pass with your change applied (the full suite takes several minutes; be patient, use a long timeout). Package tests/ has helpers (CreateApp, SendBeginBlock, SendTx, CreateTx, SignTx, DefaultAppState...) useful for end-to-end demonstrations.

Deliverables, for each of the two changes X in {a, b}, in directory /tmp/seeded/$ID-X/ :
  - patch.diff : output of "git -C /tmp/wt-$ID diff" containing ONLY the source change (no test files), applicable with "git apply" to a clean checkout;
  - the demonstration test file(s), plus a file DEMO.txt saying where to copy the test file inside the repository (relative path) and the exact "go test ... -run ..." command that fails with the change and passes without it;
  - meta.json : {"property": "$ID", "summary": "...what was changed...", "needs": "...what specific input/sequence/interleaving is needed for it to manifest...", "ran": ["...commands you ran and their outcome..."]}.
Do NOT use git stash (it is shared between worktrees); to set a change aside use 'git diff > file; git checkout -- .; git apply file'. Note that on the unmodified tree some tests already fail in this sandbox (coreV2/minter, a few in coreV2/transaction, coreV2/state/accounts, coreV2/state/candidates, and most of ./tests when run as one package): 'existing tests pass' therefore means: per-test outcomes identical to the unmodified tree. After saving each patch, reset the worktree (git -C /tmp/wt-$ID checkout -- . && git -C /tmp/wt-$ID clean -fdq) before starting the next one, and leave the worktree clean at the end. Verify, before finishing, for each change: build OK; existing tests pass with the change; demo fails with the change; demo passes without it. Report briefly what you did.
P
