#!/usr/bin/env python3
"""Regenerates /verif/MANIFEST.json from the table below (single source of truth for claims)."""
import json, subprocess

props = [json.loads(l) for l in open('/verif/properties.jsonl')]
base = json.load(open('/root/.vp/BASELINE.json'))

TRUSTED = ("Trusted base: the govc VC generator (go/ssa -> SMT translation, DESIGN.md §2), the SMT solvers (z3 5.1.0, z3 4.8.12, cvc5 1.0), "
           "built-in models of math/big (Int exact; Float/Rat as exact reals), contracts marked 'trusted' and library specs (listed per run in the "
           "evidence file under trusted_base), package-level variables written only by init treated as constants (re-checked each run). "
           "Partial correctness only (no termination); panics end a path unless the function is marked nopanic; goroutines/locks not modelled.")

# id -> (level category, text, technique, design_ref)
CLAIMS = {k: tuple(v) for k, v in json.load(open('/verif/tools/claims.json')).items()}

NA_REASON = {
 "C11": "export->genesis->export relates two whole-state traversals through IAVL iteration, String()/JSON codecs; no function-level contract expresses it (DESIGN.md §6)",
 "C06": "CheckTx-accepts-iff-DeliverTx-accepts is a relation between TWO executions of Run (check mode and deliver mode) on the same state: a 2-safety property. A contract of one call could only decide it through a pure specification of acceptance per transaction type that both modes are proved equal to; that specification does not exist and writing it amounts to re-modelling all 31 Run functions. What the contracts do cover of it: in check mode nothing is written (C03 'checkonly'), and the swap-pool gates evaluate the same quote the delivery will see (C15). No check is claimed for C06 itself (DESIGN.md §6, §9)",
 "C08": "determinism across node instances is a property of two whole runs; its per-function core would be 'every write loop iterates a sorted key list'. The sorted lists are produced by sort.Slice with a closure comparator, which this engine models only as 'rearranges the slice' (no contract language for the comparator's order), so the sortedness of getOrderedDirty* and that no other map range reaches a write cannot be discharged here; goroutine scheduling is outside contracts altogether (DESIGN.md §6, §9)",
 "C10": "recoverability after a crash at ANY write of Commit quantifies over crash points between writes and over what the Tendermint handshake does with the persisted height/hash pair (external code). A contract can state the write ORDER of Blockchain.Commit (history ghosts), but a failing order obligation could not be replayed against the real recovery path in this sandbox, and a passing one would not establish recoverability; rather than claim the order as if it were the property, no check is claimed (the post-height writes of validators/versions/emission/price are noted in DESIGN.md §7 as read, not replayed)",
 "C29": "state-sync pipeline is goroutines+channels+zlib+protobuf+IAVL import, outside the verifier's subset, and the property compares two nodes' whole futures (DESIGN.md §6)",
}

checks = []
for p in props:
    pid = p["id"]
    if pid not in CLAIMS:
        continue
    cat, text, tech, ref = CLAIMS[pid]
    checks.append({
        "property_id": pid,
        "quick_cmd": "./check %s quick" % pid,
        "thorough_cmd": "./check %s thorough" % pid,
        "evidence_file": "/verif/evidence/%s.json" % pid,
        "replay_cmd_template": "./check --replay {path}",
        "engine": "govc",
        "level_claimed": {"category": cat, "text": text, "design_ref": ref},
        "level_note": TRUSTED,
        "technique": tech,
    })

hooks_commits = []
try:
    out = subprocess.run(["git", "-C", "/repo", "log", "--format=%H %s"], capture_output=True, text=True).stdout
    for l in out.splitlines():
        h, s = l.split(" ", 1)
        if s.startswith("verif:"):
            hooks_commits.append(h)
except Exception:
    pass

m = {
 "version": 1,
 "setup_cmd": "export GOFLAGS=-mod=mod GOPROXY=off GOSUMDB=off GOTOOLCHAIN=local; mkdir -p bin && (cd govc && go build -o ../bin/govc .) && ./bin/govc warm",
 "hooks": {"guard": "verif", "enable": "-tags verif (contract files zz_contracts_verif.go are comment-only and compiled only under this tag)",
           "baseline_off_cmd": base["cmd"], "source_commits": hooks_commits, "add_only": True},
 "engines": [{"name": "govc", "path": "/verif/govc", "serves_properties": sorted(CLAIMS.keys()),
              "kind_free_text": "verification-condition generator over go/ssa for Go functions under //@ contracts; obligations discharged by z3 5.1.0 / z3 4.8.12 / cvc5 1.0"}],
 "checks": checks,
 "notes": "See DESIGN.md. Contracts live in /repo/<pkg>/zz_contracts_verif.go (build tag verif). KNOWN_FINDINGS.txt lists recorded findings/fixes.",
 "not_applicable": [{"property_id": p["id"], "reason": NA_REASON.get(p["id"], "not claimed yet: contracts for this property are not built/discharged in this version (see DESIGN.md §8)")}
                    for p in props if p["id"] not in CLAIMS],
}
json.dump(m, open('/verif/MANIFEST.json', 'w'), indent=1)
print("claimed:", sorted(CLAIMS.keys()))

# the 'uncovered' text of each evidence file is the partial part of the claim (kept in one place)
unc = {}
for k, v in CLAIMS.items():
    t = v[1]
    i, j = t.find('Partial:'), t.find('Not covered:')
    if i >= 0:
        unc[k] = t[i + len('Partial:'):].strip()
    elif j >= 0:
        unc[k] = t[j + len('Not covered:'):].strip()
    else:
        unc[k] = "nothing beyond the trusted base and the assumptions listed in this file; known findings are listed separately"
json.dump(unc, open('/verif/govc/uncovered.json', 'w'), indent=1)
