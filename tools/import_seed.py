#!/usr/bin/env python3
"""usage: import_seed.py <ID> ...   copy a confirmed seeded change from /tmp/seeded/<ID> to /verif/seeded/<ID> with a normalised meta.json"""
import json, sys, os, shutil, glob, re
results = {}
for f in glob.glob('/tmp/confirm/batch*.txt'):
    for l in open(f):
        m = re.match(r'RESULT (\S+) (.*)', l.strip())
        if m:
            if 'suite=same' in m.group(2) or m.group(1) not in results:
                results[m.group(1)] = m.group(2)
for sid in sys.argv[1:]:
    src = f'/tmp/seeded/{sid}'
    dst = f'/verif/seeded/{sid}'
    res = results.get(sid)
    if not res or 'build=ok' not in res or 'demo_with_change_rc=1' not in res or 'demo_clean_rc=0' not in res or 'suite=same' not in res:
        print('NOT CONFIRMED', sid, res)
        continue
    os.makedirs(dst, exist_ok=True)
    for f in os.listdir(src):
        p = os.path.join(src, f)
        if os.path.isfile(p) and os.path.getsize(p) < 400000:
            shutil.copy(p, os.path.join(dst, f if f != 'meta.json' else 'agent_meta.json'))
    try:
        am = json.load(open(os.path.join(src, 'meta.json')))
    except Exception as e:
        am = {}
    def pick(*ks):
        for k in ks:
            if k in am and am[k]:
                return am[k]
        return None
    meta = {
        'id': sid,
        'property': sid.split('-')[0],
        'what_changes': pick('summary', 'change', 'description', 'what', 'title'),
        'needs': pick('needs', 'what_it_needs', 'requires', 'trigger'),
        'author': 'fresh sub-agent given only the property text and a scratch worktree of /repo',
        'agent_ran': pick('ran', 'commands', 'what_i_ran', 'verification'),
        'confirmed_by_me': {
            'tool': 'tools/confirm_seed.sh (scratch worktree of the base commit c98b2a8 under /tmp, removed afterwards)',
            'result': res,
            'meaning': 'builds; per-test outcomes of ./coreV2/... ./formula/... ./rlp/... ./crypto/... ./math/... ./helpers/... ./hexutil/... identical to the clean tree; the demonstration fails with the change and passes without it',
        },
    }
    # keep an earlier 'checks' section
    old = os.path.join(dst, 'meta.json')
    if os.path.exists(old):
        try:
            o = json.load(open(old))
            if 'checks' in o:
                meta['checks'] = o['checks']
        except Exception:
            pass
    json.dump(meta, open(old, 'w'), indent=1)
    print('imported', sid)
