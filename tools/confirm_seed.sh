#!/bin/bash
# tools/confirm_seed.sh <seed-dir>   : confirm a seeded change in a scratch worktree of /repo's base commit
#  1. builds  2. the baseline test packages give the same per-test outcomes as the clean tree  3. demo fails with / passes without
set -u
export GOFLAGS=-mod=mod GOPROXY=off GOSUMDB=off GOTOOLCHAIN=local
D=$(readlink -f "$1"); ID=$(basename "$D")
BASE=${SEED_BASE:-c98b2a8}
WT=/tmp/confirm-wt-$ID
OUT=/tmp/confirm/$ID; mkdir -p "$OUT"
PKGS="./coreV2/... ./formula/... ./rlp/... ./crypto/... ./math/... ./helpers/... ./hexutil/..."
cd /repo && git worktree add -q --detach "$WT" "$BASE" || exit 2
cleanup() { cd /repo; git worktree remove --force "$WT" 2>/dev/null; }
trap cleanup EXIT
cd "$WT"
# clean-tree outcomes (cached per base commit)
if [ ! -s /tmp/confirm/base-$BASE.txt ]; then
  go test -vet=off -count=1 -json $PKGS 2>/dev/null | jq -r 'select(.Test!=null and (.Action=="pass" or .Action=="fail")) | .Package+"::"+.Test+" "+.Action' | sort > /tmp/confirm/base-$BASE.txt
fi
git apply "$D/patch.diff" || { echo "RESULT $ID patch-does-not-apply"; exit 1; }
go build ./... > "$OUT/build.log" 2>&1 || { echo "RESULT $ID build-fails"; exit 1; }
go test -vet=off -count=1 -json $PKGS 2>/dev/null | jq -r 'select(.Test!=null and (.Action=="pass" or .Action=="fail")) | .Package+"::"+.Test+" "+.Action' | sort > "$OUT/mut.txt"
if diff <(grep -v "TestGovc" /tmp/confirm/base-$BASE.txt) "$OUT/mut.txt" > "$OUT/suite.diff"; then SUITE=same; else SUITE=DIFFERENT; fi
# demo: copy test files as DEMO.txt says (first line "copy <file> -> <relative dir>" is free text; we look for *_test.go files and a 'go test' line)
CMD=$(grep -m1 -o "go test .*" "$D/DEMO.txt")
demo_run() {
  for f in "$D"/*_test.go; do
    rel=$(grep -o "[a-zA-Z0-9_/]*/$(basename $f)" "$D/DEMO.txt" | head -1)
    [ -z "$rel" ] && rel=$(grep -oE "(tests|coreV2/[a-zA-Z0-9_/]*|formula|rlp|crypto|math)/" "$D/DEMO.txt" | head -1)$(basename $f)
    mkdir -p "$(dirname "$WT/$rel")"; cp "$f" "$WT/$rel"; echo "$rel" >> "$OUT/copied.txt"
  done
  (cd "$WT" && timeout 900 bash -c "$CMD") > "$1" 2>&1; echo $?
}
RC_MUT=$(demo_run "$OUT/demo_mut.log")
git -C "$WT" checkout -q -- . 
RC_CLEAN=$( (cd "$WT" && timeout 900 bash -c "$CMD") > "$OUT/demo_clean.log" 2>&1; echo $?)
echo "RESULT $ID build=ok suite=$SUITE demo_with_change_rc=$RC_MUT demo_clean_rc=$RC_CLEAN cmd=[$CMD]"
