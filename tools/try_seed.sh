#!/bin/bash
# tools/try_seed.sh <seed-dir> <property> [tier]  : apply a seeded change to /repo, run the check, undo the change
D=$1; P=$2; T=${3:-quick}
cd /repo || exit 2
if ! git apply --check "$D/patch.diff" 2>/dev/null; then echo "PATCH DOES NOT APPLY: $D"; exit 3; fi
git apply "$D/patch.diff"
cd /verif && ./check $P $T > /tmp/try_seed.out 2>&1; rc=$?
cd /repo && git checkout -- . 
grep -E "VIOLATION|failed obligation|govc: property|KNOWN" /tmp/try_seed.out | head -8
echo "exit=$rc"
