#!/bin/bash
# tools/try_seed.sh <seed-dir> <property> [tier]  : apply a seeded change to /repo, run the check, undo the change.
# The run writes its evidence and replay files to a scratch directory (GOVC_EVIDENCE_DIR), never to /verif/evidence:
# the committed evidence must always describe the unchanged tree.
D=$(readlink -f "$1"); P=$2; T=${3:-quick}
cd /repo || exit 2
if ! git apply --check "$D/patch.diff" 2>/dev/null; then echo "PATCH DOES NOT APPLY: $D"; exit 3; fi
git apply "$D/patch.diff"
SCR=$(mktemp -d /tmp/try_seed.XXXXXX)
cd /verif && GOVC_EVIDENCE_DIR=$SCR ./check $P $T > $SCR/out 2>&1; rc=$?
cd /repo && git checkout -- . 
grep -E "VIOLATION|failed obligation|govc: property|KNOWN" $SCR/out | head -8
rm -rf "$SCR"
echo "exit=$rc"
