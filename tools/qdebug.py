#!/usr/bin/env python3
"""qdebug.py <obligation-name> <func-substring> [extra term ...]: dump the query of an obligation, drop quantified hypotheses,
and print the solver's values for the atoms of the goal (debugging aid for 'unknown' results)."""
import subprocess, sys, re, os
obl, sub = sys.argv[1], sys.argv[2]
extra = sys.argv[3:]
out = subprocess.run(['/verif/bin/govc','verify','-cap','1','-dump',obl,sub],capture_output=True,text=True,cwd='/tmp').stdout
lines=[l for l in out.split('\n') if not l.startswith('(get-value') and not l.startswith('loaded') and not l.startswith('(check-sat')]
keepq = os.environ.get('KEEPQ')
body=[l for l in lines if keepq or not (l.startswith('(assert') and ('(forall' in l or '(exists' in l) and 'sidx' not in l[:60])]
goal=[l for l in body if l.startswith('(assert (not')][-1]
def subterms(s):
    # all parenthesised subterms + symbols at depth<=4 of goal
    res=[];st=[]
    for i,ch in enumerate(s):
        if ch=='(':st.append(i)
        elif ch==')':
            j=st.pop(); res.append((len(st),s[j:i+1]))
    return res
ts=[t for d,t in subterms(goal) if 2<=d<=5 and not t.startswith('(not') and not t.startswith('(and') and not t.startswith('(or') and not t.startswith('(=>')]
seen=[];
for t in ts+extra:
    if t not in seen: seen.append(t)
q='\n'.join(body)+'\n(check-sat)\n'+''.join('(get-value (%s))\n'%t for t in seen)
open('/tmp/qdebug.smt2','w').write(q)
for solver in (['z3-new','-T:60'],['z3','-T:60']):
    r=subprocess.run(solver+['/tmp/qdebug.smt2'],capture_output=True,text=True).stdout
    if r.startswith('sat') or r.startswith('unsat'):
        break
print(solver[0]); print(r[:int(os.environ.get('MAXOUT','6000'))])
