#!/usr/bin/env python3
"""tools/validate_evidence.py : every claimed property has an evidence file that (1) validates against the evidence
schema, (2) is a record of a quiet run: violations == 0 and, for the proof level, discharged == obligations >= 1,
(3) carries the property id and level claimed in MANIFEST.json.  Exit 1 with one line per problem."""
import json, os, sys
V = os.path.dirname(os.path.dirname(os.path.abspath(__file__)))
schema = None
for p in ("/root/.vp/EVIDENCE.schema.json",):
    if os.path.exists(p):
        schema = json.load(open(p))
try:
    import jsonschema
except ImportError:
    jsonschema = None
man = json.load(open(os.path.join(V, "MANIFEST.json")))
bad = 0
for c in man["checks"]:
    pid = c["property_id"]
    f = c["evidence_file"]
    try:
        e = json.load(open(f))
    except Exception as ex:
        print(f"{pid}: cannot read {f}: {ex}"); bad += 1; continue
    if schema is not None and jsonschema is not None:
        errs = list(jsonschema.Draft202012Validator(schema).iter_errors(e))
        for er in errs:
            print(f"{pid}: schema: {er.message[:200]}"); bad += 1
    cov = e.get("coverage", {})
    if e.get("property_id") != pid:
        print(f"{pid}: property_id is {e.get('property_id')}"); bad += 1
    if e.get("level") != c["level_claimed"]["category"]:
        print(f"{pid}: level {e.get('level')} != claimed {c['level_claimed']['category']}"); bad += 1
    if e.get("violations", 0) != 0:
        print(f"{pid}: evidence records {e['violations']} violation(s): not from a quiet run on the unchanged tree"); bad += 1
    if e.get("level") == "proof":
        o, d = cov.get("obligations", 0), cov.get("discharged", -1)
        if o < 1 or o != d:
            print(f"{pid}: discharged ({d}) != obligations ({o})"); bad += 1
        if not cov.get("checker_cmd", "").strip() or not isinstance(cov.get("trusted_base"), list):
            print(f"{pid}: checker_cmd / trusted_base missing"); bad += 1
    if not cov.get("samples"):
        print(f"{pid}: no samples"); bad += 1
    if bad == 0 or True:
        print(f"{pid}: tier={e.get('tier')} seed={e.get('seed')} obligations={cov.get('obligations')} discharged={cov.get('discharged')} known={cov.get('known_finding_obligations')} violations={e.get('violations')} wall={e.get('wall_s'):.1f}s")
sys.exit(1 if bad else 0)
