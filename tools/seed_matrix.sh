#!/bin/bash
# tools/seed_matrix.sh [tier] [seed-id ...] : run every seeded change (seeded/<id>/patch.diff) against the check of the
# property it breaks, in a scratch worktree of /repo (GOVC_REPO), never in /repo itself; evidence goes to a scratch dir.
# Prints one line per seed: <seed> <property> caught|MISSED|unclaimed|noapply  <first failing obligation>
T=${1:-quick}; shift
export GOFLAGS=-mod=mod GOPROXY=off GOSUMDB=off GOTOOLCHAIN=local
cd /verif
WT=$(mktemp -d /tmp/seedwt.XXXXXX); rmdir $WT
git -C /repo worktree add --detach -f $WT HEAD >/dev/null 2>&1 || { echo "worktree failed"; exit 2; }
trap 'git -C /repo worktree remove --force $WT >/dev/null 2>&1; rm -rf $WT' EXIT
CLAIMED=$(jq -r '.checks[].property_id' MANIFEST.json)
SEEDS=${@:-$(ls seeded)}
for s in $SEEDS; do
  P=$(jq -r .property seeded/$s/meta.json)
  if ! echo "$CLAIMED" | grep -qx "$P"; then echo "$s $P unclaimed"; continue; fi
  git -C $WT checkout -q -- . ; git -C $WT clean -fdq
  if ! git -C $WT apply --check /verif/seeded/$s/patch.diff 2>/dev/null; then echo "$s $P noapply"; continue; fi
  git -C $WT apply /verif/seeded/$s/patch.diff
  SCR=$(mktemp -d /tmp/seedev.XXXXXX)
  GOVC_REPO=$WT GOVC_EVIDENCE_DIR=$SCR ./check $P $T > $SCR/out 2>&1; rc=$?
  ob=$(grep -E "VIOLATION|failed obligation" $SCR/out | head -2 | tr '\n' ' ' | cut -c1-300)
  if [ $rc = 1 ]; then echo "$s $P caught $ob"; elif [ $rc = 0 ]; then echo "$s $P MISSED"; else echo "$s $P error rc=$rc $(tail -2 $SCR/out | tr '\n' ' ' | cut -c1-200)"; fi
  rm -rf $SCR
done
