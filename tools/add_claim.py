#!/usr/bin/env python3
"""usage: add_claim.py ID category 'text' 'technique' 'design_ref'  -- adds/replaces a claim in claims.json and regenerates MANIFEST.json"""
import json, sys, subprocess
p='/verif/tools/claims.json'
c=json.load(open(p))
c[sys.argv[1]]=[sys.argv[2],sys.argv[3],sys.argv[4],sys.argv[5]]
json.dump(c,open(p,'w'),indent=1)
subprocess.run(['python3','/verif/tools/genmanifest.py'])
