#!/bin/bash
# tools/vseed.sh <seed-id|patch-file> <name-substring>... : govc verify against a scratch worktree of /repo (+ current contract
# files, committed or not) with the seeded change applied. Development aid; never touches /repo.
S=$1; shift
export GOFLAGS=-mod=mod GOPROXY=off GOSUMDB=off GOTOOLCHAIN=local
P=$S; [ -f "$P" ] || P=/verif/seeded/$S/patch.diff
WT=$(mktemp -d /tmp/vseedwt.XXXXXX); rmdir $WT
git -C /repo worktree add --detach -f $WT HEAD >/dev/null 2>&1 || { echo "worktree failed"; exit 2; }
trap 'git -C /repo worktree remove --force $WT >/dev/null 2>&1; rm -rf $WT' EXIT
(cd /repo && find . -name zz_contracts_verif.go | while read f; do mkdir -p $WT/$(dirname $f); cp $f $WT/$f; done)
git -C $WT apply $P || { echo "patch does not apply"; exit 3; }
cd /verif && GOVC_REPO=$WT ./bin/govc verify "$@" 2>&1 | grep -E "FAIL|problems|^==|error|solved" | cut -c1-220
