package main

import (
	"fmt"
	"go/types"
	"reflect"
	"sort"
	"strings"

	"golang.org/x/tools/go/ssa"
)

// activeProperty: the property being checked ("" in the developer command): see unitsFor.
var activeProperty string

// Unit is the verification result of one function under contract or one lemma.
type Unit struct {
	Name     string
	Kind     string // func, lemma
	Contract *Contract
	Lemma    *Lemma
	Fn       *ssa.Function
	Ctx      *Ctx
	Obls     []*Obligation
	Missing  bool
	Errors   []string
	Pos      string
	Passes   int
	Inputs   *inputDesc
}

func (p *Program) findFunc(ct *Contract) *ssa.Function {
	return p.Funcs[ct.Pkg+"::"+ct.FuncName]
}

// VerifyContract generates the obligations of one function against its contract.
func (p *Program) VerifyContract(ct *Contract, tier string) *Unit {
	name := shortPkg(ct.Pkg) + "." + ct.FuncName
	if ct.Alt != "" {
		name += "#" + ct.Alt
	}
	u := &Unit{Name: name, Kind: "func", Contract: ct}
	fn := p.findFunc(ct)
	if fn == nil || fn.Blocks == nil {
		u.Missing = true
		c := NewCtx(p, name)
		u.Ctx = c
		o := &Obligation{Name: name + "/exists", Func: name, Kind: "exists", Guard: tTrue, Goal: tFalse, Src: "function under contract exists with a body", Status: "sat", Solver: "none", Output: "function " + ct.FuncName + " not found in package " + ct.Pkg, Unit: c}
		u.Obls = []*Obligation{o}
		return u
	}
	u.Fn = fn
	c := NewCtx(p, name)
	u.Ctx = c
	u.Pos = c.posOf(fn.Pos())
	for pass := 1; pass <= 6; pass++ {
		u.Passes = pass
		c.resetPass()
		c.nopanic = ct.NoPanic && (activeProperty == "" || activeProperty == "C07")
		c.lockCheck = ct.LockOnly || activeProperty == "C25"
		c.lockOnly = ct.LockOnly
		c.nguard = 0
		c.acqInit = nil
		c.tier = tier
		func() {
			defer func() {
				if r := recover(); r != nil {
					if se, ok := r.(specError); ok {
						c.specErrors = append(c.specErrors, se.msg)
						return
					}
					panic(r)
				}
			}()
			p.genFunc(c, fn, ct)
		}()
		stable := pass >= 2 && !c.grew && reflect.DeepEqual(c.blockWrites, c.blockWritesPrev)
		c.blockWritesPrev = c.blockWrites
		if stable {
			break
		}
	}
	u.Obls = c.obls
	if ct.LockOnly {
		// a lock-discipline sweep unit: only "the guard is held" obligations and lock preconditions of callees count
		var keep []*Obligation
		for _, o := range c.obls {
			if o.Kind == "guard" || (o.Kind == "pre" && strings.Contains(o.Src, "held(")) {
				keep = append(keep, o)
			}
		}
		u.Obls = keep
	}
	u.Inputs = c.inputs
	if c.inputs != nil {
		for _, o := range u.Obls {
			o.Witness = c.inputs.Witness
		}
	}
	u.Errors = append(u.Errors, c.specErrors...)
	return u
}

func shortPkg(path string) string {
	return strings.TrimPrefix(path, modulePath+"/")
}

func (p *Program) genFunc(c *Ctx, fn *ssa.Function, ct *Contract) {
	c.specErrors = nil
	st := &State{heap: map[string]*Term{}}
	g := tTrue
	fr := c.newFrame(fn, nil)
	fr.contract = ct
	c.unitContract = ct
	c.allocName()
	// parameters: arbitrary values of their types
	for _, prm := range fn.Params {
		v := c.freshVal(st, g, prm.Type(), "p."+prm.Name())
		fr.params = append(fr.params, v)
	}
	// a function literal verified as a unit of its own ("func (*T).M$1"): its captured variables are arbitrary pointers
	// to cells of the enclosing function; contracts name them as in the source and read them with deref()
	c.unitFree = map[string]SVal{}
	for _, fv := range fn.FreeVars {
		v := c.freshVal(st, g, fv.Type(), "fv."+fv.Name())
		fr.freeVars = append(fr.freeVars, v)
		vv := v
		c.unitFree[fv.Name()] = SVal{T: c.valTerm(v, fv.Name()), Type: fv.Type(), Val: &vv}
	}
	entry := st.clone()
	c.inputs = c.describeInputs(fn, fr.params, entry)
	sig := fn.Signature
	env := c.contractEnv(ct, sig, nil, fr.params, fn.Pkg.Pkg, entry, nil)
	var reqs []*Term
	for k, r := range ct.Requires {
		t := c.safeEvalBool(env, r)
		reqs = append(reqs, t)
		if r.Assumed {
			c.trustedUsed["input well-formedness assumed by "+shortPkg(ct.Pkg)+"."+ct.FuncName+": "+r.Src] = true
		}
		if len(ct.Implements) > 0 && !r.FromIface && !r.Assumed {
			// behavioural subtyping: a dynamically dispatched call establishes the interface's preconditions only, so the
			// method's own preconditions must follow from them
			c.oblige(&Obligation{Name: fmt.Sprintf("%s/subtype-pre#%s", c.unitName, clauseLabel(r, k)), Func: c.unitName, Kind: "pre",
				Guard: tTrue, Goal: t, Pos: fmt.Sprintf("%s:%d", r.File, r.Line), Src: "own precondition follows from the interface contract's: " + r.Src, Tags: r.Tags})
		}
		c.assume(t)
	}
	for _, ax := range p.Axioms {
		if ax.Pkg == ct.Pkg {
			ae := &Env{c: c, vars: map[string]SVal{}, cur: entry, pkg: fn.Pkg.Pkg, g: tTrue}
			c.assumeAxiom(c.safeEvalBool(ae, ax.C), ax.C)
			c.trustedUsed["axiom "+shortPkg(ax.Pkg)+"."+ax.C.Label+": "+ax.C.Src] = true
		}
	}
	rets := fr.exec(st, g)
	// merge returns
	var guards []*Term
	var sts []*State
	for _, r := range rets {
		guards = append(guards, r.guard)
		sts = append(sts, r.st)
	}
	var rg *Term = tFalse
	var post *State = st
	var res Val
	if len(rets) > 0 {
		rg = c.define("g.return", tOr(guards...))
		post = c.joinStates(guards, sts)
		n := sig.Results().Len()
		var out []Val
		for i := 0; i < n; i++ {
			if len(rets) == 1 {
				out = append(out, rets[0].vals[i])
				continue
			}
			acc := c.valTerm(rets[len(rets)-1].vals[i], "ret")
			for k := len(rets) - 2; k >= 0; k-- {
				acc = tIte(rets[k].guard, c.valTerm(rets[k].vals[i], "ret"), acc)
			}
			out = append(out, tv(c.define("result", acc)))
		}
		switch n {
		case 0:
		case 1:
			res = out[0]
		default:
			res = Val{Tuple: out}
		}
	}
	// vacuity probe: some normal return must be reachable under the preconditions
	split := len(rets) > 6 || (ct.SplitRet && len(rets) > 1)
	if len(ct.Ensures) > 0 || ct.NoPanic {
		if split {
			// large functions: probe the last return point only (along its own path), the merged probe is too big to be decided sat
			last := rets[0]
			for _, r := range rets {
				if r.block > last.block {
					last = r
				}
			}
			c.curTop = last.block
			c.oblige(&Obligation{Name: c.unitName + "/cover#return", Func: c.unitName, Kind: "cover", Guard: last.guard, Goal: tFalse, ExpectFail: true,
				Src: "the final return is reachable under the preconditions (vacuity guard)", Pos: fmt.Sprintf("%s:%d", ct.File, ct.Line)})
			c.curTop = -1
		} else {
			c.oblige(&Obligation{Name: c.unitName + "/cover#return", Func: c.unitName, Kind: "cover", Guard: rg, Goal: tFalse, ExpectFail: true,
				Src: "a normal return is reachable under the preconditions (vacuity guard)", Pos: fmt.Sprintf("%s:%d", ct.File, ct.Line)})
		}
	}
	if split {
		// many return points (executors, Run methods): one obligation per return point and clause, over that path's
		// own state; clauses that are syntactically true at a return point (e.g. "Code == OK ==> ..." at an error
		// return) produce no obligation
		for ri, r := range rets {
			var rv Val
			switch sig.Results().Len() {
			case 0:
			case 1:
				rv = r.vals[0]
			default:
				rv = Val{Tuple: r.vals}
			}
			renv := c.contractEnv(ct, sig, nil, fr.params, fn.Pkg.Pkg, r.st, entry)
			bindResults(renv, sig, rv)
			for k, e := range ct.Ensures {
				if e.Tags["thorough"] && c.tier != "thorough" {
					continue
				}
				if e.Tags["assumed"] {
					c.trustedUsed["assumed postcondition of "+shortPkg(ct.Pkg)+"."+ct.FuncName+": "+e.Src] = true
					continue
				}
				c.curTop = r.block
				goal := c.safeEvalBool(renv, e)
				if goal.S == "true" {
					c.curTop = -1
					continue
				}
				c.oblige(&Obligation{Name: fmt.Sprintf("%s/ensures#%s@ret%d", c.unitName, clauseLabel(e, k), ri), Func: c.unitName, Kind: "ensures", NoAssume: true,
					Guard: r.guard, Goal: goal, Pos: fmt.Sprintf("%s:%d", e.File, e.Line), Src: e.Src, Tags: e.Tags})
				c.curTop = -1
			}
		}
	} else {
		penv := c.contractEnv(ct, sig, nil, fr.params, fn.Pkg.Pkg, post, entry)
		bindResults(penv, sig, res)
		for k, e := range ct.Ensures {
			if e.Tags["thorough"] && c.tier != "thorough" {
				continue
			}
			if e.Tags["assumed"] {
				// stated but not proved here (e.g. determinism of a cryptographic primitive): listed in the trusted base
				c.trustedUsed["assumed postcondition of "+shortPkg(ct.Pkg)+"."+ct.FuncName+": "+e.Src] = true
				continue
			}
			goal := c.safeEvalBool(penv, e)
			c.oblige(&Obligation{Name: fmt.Sprintf("%s/ensures#%s", c.unitName, clauseLabel(e, k)), Func: c.unitName, Kind: "ensures",
				Guard: rg, Goal: goal, Pos: fmt.Sprintf("%s:%d", e.File, e.Line), Src: e.Src, Tags: e.Tags})
		}
	}
	// covers: situations that must be reachable at a normal return
	if len(ct.Covers) > 0 && len(rets) > 0 {
		cg, cst, cres := rg, post, res
		top := -1
		if split {
			last := rets[0]
			for _, r := range rets {
				if r.block > last.block {
					last = r
				}
			}
			cg, cst, top = last.guard, last.st, last.block
			switch sig.Results().Len() {
			case 0:
			case 1:
				cres = last.vals[0]
			default:
				cres = Val{Tuple: last.vals}
			}
		}
		cenv := c.contractEnv(ct, sig, nil, fr.params, fn.Pkg.Pkg, cst, entry)
		bindResults(cenv, sig, cres)
		for k, cv := range ct.Covers {
			c.curTop = top
			t := c.safeEvalBool(cenv, cv)
			c.oblige(&Obligation{Name: fmt.Sprintf("%s/cover#%s", c.unitName, clauseLabel(cv, k)), Func: c.unitName, Kind: "cover", Guard: tAnd(cg, t), Goal: tFalse, ExpectFail: true,
				Src: "reachable at a normal return (vacuity guard): " + cv.Src, Pos: fmt.Sprintf("%s:%d", cv.File, cv.Line), Tags: cv.Tags})
			c.curTop = -1
		}
	}
	// frame
	if ct.ModSet {
		p.frameObligations(c, fr, ct, env, entry, post, rg)
	}
	for _, o := range c.obls {
		o.Props = ct.Props
		if c.usesReal && !o.Tags["real"] {
			// marked per obligation later by symbol inspection
		}
	}
}

// frameObligations: every heap location not listed in modifies is unchanged for objects that existed at entry.
func (p *Program) frameObligations(c *Ctx, fr *Frame, ct *Contract, env *Env, entry, post *State, rg *Term) {
	type allowed struct {
		whole      bool
		wholeConds []*Term // the whole array may change only when one of these holds (conditional modifies)
		points     [][]*Term
		conds      []*Term // per point: nil, or the condition under which that point may change
	}
	allow := map[string]*allowed{}
	for _, m := range ct.Modifies {
		func() {
			defer func() {
				if r := recover(); r != nil {
					if se, ok := r.(specError); ok {
						c.specErrors = append(c.specErrors, fmt.Sprintf("modifies %s: %s", m, se.msg))
						return
					}
					panic(r)
				}
			}()
			x, err := ParseExpr(m)
			if err != nil {
				panic(specError{err.Error()})
			}
			if m == "*" {
				allow["*"] = &allowed{whole: true}
				return
			}
			// "cond ? target : nothing": the target may change only when cond holds in the pre-state
			var cond *Term
			if ce, ok := x.(*ECond); ok {
				if id, ok := ce.B.(*EIdent); !ok || id.Name != "nothing" {
					panic(specError{"conditional modifies must have the form cond ? target : nothing"})
				}
				cond = env.evalBool(ce.C)
				x = ce.A
			}
			names, points := c.modTargets(env, x)
			for i, n := range names {
				a := allow[n]
				if a == nil {
					a = &allowed{}
					allow[n] = a
				}
				if points[i] == nil {
					if cond == nil {
						a.whole = true
					} else {
						a.wholeConds = append(a.wholeConds, cond)
					}
				} else {
					a.points = append(a.points, points[i])
					a.conds = append(a.conds, cond)
				}
			}
		}()
	}
	if allow["*"] != nil {
		return
	}
	names := append([]string(nil), c.heapNames...)
	sort.Strings(names)
	alloc0 := c.heapGet(entry, c.allocName())
	for _, n := range names {
		if n == "$alloc" || strings.HasPrefix(n, "iter!") {
			continue
		}
		a := allow[n]
		if a != nil && a.whole {
			continue
		}
		oldT, newT := c.heapGet(entry, n), c.heapGet(post, n)
		if oldT.S == newT.S {
			continue
		}
		sortN := c.heapSorts[n]
		refIndexed := strings.HasPrefix(n, "F!") || n == "bigval" || n == "realval" || strings.HasPrefix(n, "cell!") || strings.HasPrefix(n, "elem!") || strings.HasPrefix(n, "map")
		var goal *Term
		var wholeExcuse []*Term
		if a != nil {
			for _, wc := range a.wholeConds {
				wholeExcuse = append(wholeExcuse, tNot(wc))
			}
		}
		if !strings.HasPrefix(string(sortN), "(Array ") {
			goal = tImp(tAnd(wholeExcuse...), tEq(newT, oldT))
		} else {
			// skolemised: for an arbitrary index (tuple) different from every allowed point
			depth := 1
			if a != nil && len(a.points) > 0 {
				depth = len(a.points[0])
			}
			var idx []*Term
			no, nn := oldT, newT
			s := sortN
			for d := 0; d < depth; d++ {
				k := c.fresh("frame.k", idxSortOf(s))
				idx = append(idx, k)
				no, nn = tSelect(no, k), tSelect(nn, k)
				s = elemSortOf(s)
			}
			var hyp []*Term
			if refIndexed {
				hyp = append(hyp, tLe(idx[0], alloc0), tGe(idx[0], intLit(0)))
			}
			if a != nil {
				for pi, pt := range a.points {
					var eqs []*Term
					if pi < len(a.conds) && a.conds[pi] != nil {
						eqs = append(eqs, a.conds[pi])
					}
					for d := range pt {
						if d < len(idx) {
							eqs = append(eqs, tEq(idx[d], pt[d]))
						}
					}
					hyp = append(hyp, tNot(tAnd(eqs...)))
				}
			}
			hyp = append(hyp, wholeExcuse...)
			goal = tImp(tAnd(hyp...), tEq(nn, no))
		}
		c.oblige(&Obligation{Name: fmt.Sprintf("%s/frame#%s", c.unitName, n), Func: c.unitName, Kind: "frame", Guard: rg, Goal: goal,
			Pos: fmt.Sprintf("%s:%d", ct.File, ct.Line), Src: "not in modifies: " + n})
	}
}

// VerifyLemma turns a pure lemma into one obligation per ensures clause.
func (p *Program) VerifyLemma(l *Lemma, tier string) *Unit {
	name := shortPkg(l.Pkg) + ".lemma." + l.Name
	u := &Unit{Name: name, Kind: "lemma", Lemma: l}
	c := NewCtx(p, name)
	c.tier = tier
	u.Ctx = c
	u.Pos = fmt.Sprintf("%s:%d", l.File, l.Line)
	func() {
		defer func() {
			if r := recover(); r != nil {
				if se, ok := r.(specError); ok {
					c.specErrors = append(c.specErrors, se.msg)
					return
				}
				panic(r)
			}
		}()
		e := &Env{c: c, vars: map[string]SVal{}, cur: &State{heap: map[string]*Term{}}, pkg: p.typesPkg(l.Pkg), g: tTrue}
		for _, v := range l.Vars {
			s, ty := e.specSort(v.Type)
			t := c.fresh("v."+v.Name, s)
			e.vars[v.Name] = SVal{T: t, Type: ty}
			if ty != nil {
				c.assume(c.typeConstraint(ty, t))
			}
		}
		var reqs []*Term
		for _, r := range l.Requires {
			t := c.safeEvalBool(e, r)
			reqs = append(reqs, t)
			c.assume(t)
		}
		for _, ax := range p.Axioms {
			if ax.Pkg == l.Pkg {
				c.assumeAxiom(c.safeEvalBool(e, ax.C), ax.C)
				c.trustedUsed["axiom "+shortPkg(ax.Pkg)+"."+ax.C.Label+": "+ax.C.Src] = true
			}
		}
		c.oblige(&Obligation{Name: name + "/cover#requires", Func: name, Kind: "cover", Guard: tTrue, Goal: tFalse, ExpectFail: true,
			Src: "lemma hypotheses are satisfiable (vacuity guard)", Pos: u.Pos})
		for k, en := range l.Ensures {
			if en.Tags["thorough"] && tier != "thorough" {
				continue
			}
			goal := c.safeEvalBool(e, en)
			c.oblige(&Obligation{Name: fmt.Sprintf("%s/ensures#%s", name, clauseLabel(en, k)), Func: name, Kind: "lemma", Guard: tTrue, Goal: goal,
				Pos: fmt.Sprintf("%s:%d", en.File, en.Line), Src: en.Src, Tags: en.Tags})
		}
	}()
	for _, o := range c.obls {
		o.Props = l.Props
	}
	u.Obls = c.obls
	u.Errors = c.specErrors
	return u
}

var _ = types.Typ
