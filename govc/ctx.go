package main

import (
	"fmt"
	"go/token"
	"go/types"
	"sort"
	"strings"
)

// Assertion is one hypothesis line of a unit.
type Assertion struct {
	Seq  int
	Text string // SMT term (Bool)
	Def  string // symbol defined by this assertion ("" for plain assumptions)
	Syms []string
	Real bool // depends on the A-REAL idealisation
	FromObl string // the obligation whose goal this assumption restates
	NeedTag string // only visible to obligations carrying this tag
	HasPred bool   // join definition for the edge from top-frame block Pred
	Pred    int
	Always  bool // a fact that does not depend on the path (value of a package-level constant): exempt from path slicing
}

// Obligation is one proof goal.
type Obligation struct {
	Name    string // stable name: <func>/<kind>#<label>
	Func    string
	Kind    string // ensures, pre, inv-entry, inv-preserve, panic, frame, lemma, cover
	Seq     int    // hypotheses with Seq < this are visible
	Guard   *Term
	Goal    *Term
	Pos     string
	Src     string
	Tags    map[string]bool
	Props   []string
	Unit    *Ctx
	Witness []*Term // terms whose model values are requested on sat
	// results
	Status     string // unsat (discharged), sat, unknown, timeout, error
	Solver     string
	Ms         int64
	Model      map[string]string
	Size       int
	NHyp       int
	Output     string
	ExpectFail bool // vacuity probes: goal "false" must NOT be provable
	Top        int  // top-frame block where the obligation arises (-1: not tied to one block)
	NoAssume   bool // end-of-path obligation: nothing later depends on it, so it is not added to the hypotheses
}

// Ctx is the translation unit for one function under contract (or one lemma).
type Ctx struct {
	prog            *Program
	unitName        string
	unitContract    *Contract
	unitFree        map[string]SVal // a function literal as a unit: its captured variables (pointers to the enclosing function's cells), by name
	passNo          int // 1 on the first pass over the unit (loop write sets unknown), then 2, 3, ...
	decls           []string
	declared        map[string]Sort
	dtDecls         map[string]bool
	asserts         []*Assertion
	obls            []*Obligation
	seq             int
	nfresh          int
	heapNames       []string
	heapSorts       map[string]Sort
	grew            bool
	sortDecls       []string
	structSorts     map[string]Sort
	strLits         map[string]*Term
	uncontracted    map[string]int
	trustedUsed     map[string]bool
	inlined         map[string]bool
	usesReal        bool
	warnings        []string
	outOfSubset     []string
	discover        bool
	blockWrites     map[string]map[string]bool // frameKey:blockIndex -> set of heap names
	blockWritesPrev map[string]map[string]bool
	typeTags        map[string]int
	specDeclared    map[string]bool
	curWriteKeys    []string // stack of "frame:block" keys currently executing (for attributing writes)
	nopanic         bool
	lockCheck       bool // generate lock-discipline obligations (C25)
	lockOnly        bool // the unit is a lock-discipline sweep unit: only guard obligations and lock preconditions are kept
	nguard          int
	acqInit         map[string]bool
	panicCount      map[string]int
	preCount        map[string]int
	fset            *token.FileSet
	specErrors      []string
	specHeap        map[string][]string
	tier            string
	constGlobals    map[string]*globalInfo
	globalFactsDone map[string]bool
	assumedTexts    map[string]bool
	storeInfos      map[string]*storeInfo
	allocOf         map[string]int
	allocKeys       map[string][]string // own reference -> the "frame:block" keys executing when it was allocated
	refEpoch        map[string]int
	allocOrd        int
	noNote          int // >0 while havocking at a loop header (not a write of the loop body)
	recSpecs        map[string]*recSpec
	inputs          *inputDesc
	effectFreeUsed  map[string]bool
	ctorDefs        map[string]*Term
	blockMarks      []blockMark
	curTop          int
	curJoinPreds    []int
	topAnc          map[int]map[int]bool // top-frame block -> set of blocks that can reach it (forward edges)
	noAssume        map[string]bool // obligations (known findings) whose goals must not be assumed afterwards
}

func NewCtx(p *Program, unit string) *Ctx {
	c := &Ctx{prog: p, unitName: unit}
	c.heapSorts = map[string]Sort{}
	c.dtDecls = map[string]bool{}
	c.structSorts = map[string]Sort{}
	c.resetPass()
	c.blockWritesPrev = map[string]map[string]bool{}
	if p != nil && p.SSA != nil {
		c.fset = p.SSA.Fset
	}
	return c
}

func (c *Ctx) resetPass() {
	c.passNo++
	c.decls = nil
	c.declared = map[string]Sort{}
	c.asserts = nil
	c.obls = nil
	c.seq = 0
	c.nfresh = 0
	c.strLits = map[string]*Term{}
	c.uncontracted = map[string]int{}
	c.trustedUsed = map[string]bool{}
	c.inlined = map[string]bool{}
	c.effectFreeUsed = map[string]bool{}
	c.ctorDefs = nil
	c.blockMarks = nil
	c.curTop = -1
	c.curJoinPreds = nil
	c.topAnc = nil
	c.usesReal = false
	c.warnings = nil
	c.outOfSubset = nil
	c.blockWrites = map[string]map[string]bool{}
	c.typeTags = map[string]int{}
	c.specDeclared = map[string]bool{}
	c.panicCount = map[string]int{}
	c.preCount = map[string]int{}
	c.grew = false
	// constGlobals persists across passes: a constant global must be known as such before the first havoc of the
	// final pass, even if the code reads it only later
	c.globalFactsDone = nil
	c.assumedTexts = nil
	c.storeInfos = nil
	c.allocOf = map[string]int{}
	c.allocKeys = map[string][]string{}
	c.refEpoch = map[string]int{}
	c.allocOrd = 0
}

func (c *Ctx) warn(format string, a ...interface{}) {
	c.warnings = append(c.warnings, fmt.Sprintf(format, a...))
}

func (c *Ctx) unsupported(format string, a ...interface{}) {
	c.outOfSubset = append(c.outOfSubset, fmt.Sprintf(format, a...))
}

func (c *Ctx) nextSeq() int { c.seq++; return c.seq }

func (c *Ctx) declare(name string, sort Sort) {
	if _, ok := c.declared[name]; ok {
		return
	}
	c.declared[name] = sort
	c.decls = append(c.decls, fmt.Sprintf("(declare-const %s %s)", name, sort))
}

func (c *Ctx) declareFun(name string, args []Sort, ret Sort) {
	if _, ok := c.declared[name]; ok {
		return
	}
	c.declared[name] = ret
	var as []string
	for _, a := range args {
		as = append(as, string(a))
	}
	c.decls = append(c.decls, fmt.Sprintf("(declare-fun %s (%s) %s)", name, strings.Join(as, " "), ret))
	if name == "gbytes.str" {
		// the content of a one-byte slice is determined by that byte (key prefixes such as []byte{mainPrefix})
		c.decls = append(c.decls, "(declare-fun gstr.fromByte (Int) Str)")
		c.declared["gstr.fromByte"] = SStr
		c.asserts = append(c.asserts, &Assertion{Seq: 0, Always: true, Text: "(forall ((ba (Array Int Int)) (bo Int)) (! (= (gbytes.str ba bo 1) (gstr.fromByte (select ba bo))) :pattern ((gbytes.str ba bo 1))))"})
		// lengths: a one-byte string has length 1; the content of n bytes has length n
		c.asserts = append(c.asserts, &Assertion{Seq: 0, Always: true, Text: "(forall ((bx Int)) (! (= (gstr.len (gstr.fromByte bx)) 1) :pattern ((gstr.fromByte bx))))"})
		c.asserts = append(c.asserts, &Assertion{Seq: 0, Always: true, Text: "(forall ((ba (Array Int Int)) (bo Int) (bn Int)) (! (=> (>= bn 0) (= (gstr.len (gbytes.str ba bo bn)) bn)) :pattern ((gbytes.str ba bo bn))))"})
		// byte j of the content of a byte slice is element j of the slice
		if _, ok := c.declared["gstr.at"]; !ok {
			c.decls = append(c.decls, "(declare-fun gstr.at (Str Int) Int)")
			c.declared["gstr.at"] = SInt
		}
		c.asserts = append(c.asserts, &Assertion{Seq: 0, Always: true, Text: "(forall ((ba (Array Int Int)) (bo Int) (bn Int) (bj Int)) (! (=> (and (<= 0 bj) (< bj bn)) (= (gstr.at (gbytes.str ba bo bn) bj) (select ba (+ bo bj)))) :pattern ((gstr.at (gbytes.str ba bo bn) bj))))"})
	}
	if name == "gstr.cat" {
		// the only interpreted fact about concatenation: lengths add up
		c.asserts = append(c.asserts, &Assertion{Seq: 0, Always: true, Text: "(forall ((ca Str) (cb Str)) (! (= (gstr.len (gstr.cat ca cb)) (+ (gstr.len ca) (gstr.len cb))) :pattern ((gstr.cat ca cb))))"})
	}
}

// declareBE declares the big-endian codec of width w ("32", "16") with its two facts (A-CODEC): decoding an encoding
// gives the number back on the type's range, and an encoding has the fixed length.
func (c *Ctx) declareBE(w string) {
	enc, dec := "be"+w+".enc", "be"+w+".dec"
	if _, ok := c.declared[enc]; ok {
		return
	}
	c.declareFun(enc, []Sort{SInt}, SStr)
	c.declareFun(dec, []Sort{SStr}, SInt)
	limit, n := "4294967296", "4"
	if w == "16" {
		limit, n = "65536", "2"
	}
	c.asserts = append(c.asserts, &Assertion{Seq: 0, Always: true, Text: fmt.Sprintf(
		"(forall ((bx Int)) (! (and (= (gstr.len (%s bx)) %s) (=> (and (<= 0 bx) (< bx %s)) (= (%s (%s bx)) bx))) :pattern ((%s bx))))", enc, n, limit, dec, enc, enc)})
	// a decoded value is a number of the type
	c.asserts = append(c.asserts, &Assertion{Seq: 0, Always: true, Text: fmt.Sprintf(
		"(forall ((bs Str)) (! (and (<= 0 (%s bs)) (< (%s bs) %s)) :pattern ((%s bs))))", dec, dec, limit, dec)})
}

func (c *Ctx) fresh(hint string, sort Sort) *Term {
	c.nfresh++
	name := fmt.Sprintf("%s!%d", sanitize(hint), c.nfresh)
	c.declare(name, sort)
	return mk(sort, name)
}

// assume adds a hypothesis visible to later obligations.
func (c *Ctx) assume(t *Term) {
	if t == nil || t.S == "true" {
		return
	}
	if c.assumedTexts == nil {
		c.assumedTexts = map[string]bool{}
	}
	if c.assumedTexts[t.S] {
		return
	}
	c.assumedTexts[t.S] = true
	c.asserts = append(c.asserts, &Assertion{Seq: c.nextSeq(), Text: t.S})
}

func (c *Ctx) assumeG(g, t *Term) { c.assume(tImp(g, t)) }

// assumeAxiom adds a package axiom; an axiom tagged [real] is only visible to obligations tagged [real].
func (c *Ctx) assumeAxiom(t *Term, cl *Clause) {
	need := ""
	if cl.Tags["real"] {
		need = "real"
	}
	// axioms are exempt from path slicing: a fact about a spec function that only occurs inside the body of another
	// (defined) spec function would otherwise be judged irrelevant
	c.asserts = append(c.asserts, &Assertion{Seq: c.nextSeq(), Text: t.S, NeedTag: need, Always: need == ""})
}

// define introduces a named abbreviation sym = t.
func (c *Ctx) define(hint string, t *Term) *Term {
	if len(t.S) < 48 {
		return t
	}
	v := c.fresh(hint, t.Sort)
	c.asserts = append(c.asserts, &Assertion{Seq: c.nextSeq(), Text: tEq(v, t).S, Def: v.S})
	if strings.HasPrefix(t.S, "(mk!") {
		if c.ctorDefs == nil {
			c.ctorDefs = map[string]*Term{}
		}
		c.ctorDefs[v.S] = t
	}
	return v
}

// defineAlways is define without the size shortcut.
func (c *Ctx) defineAlways(hint string, t *Term) *Term {
	v := c.fresh(hint, t.Sort)
	c.asserts = append(c.asserts, &Assertion{Seq: c.nextSeq(), Text: tEq(v, t).S, Def: v.S})
	return v
}

// defGuarded records (=> g (= v t)) as (part of) the definition of v.
func (c *Ctx) defGuarded(v *Term, g *Term, t *Term) {
	c.asserts = append(c.asserts, &Assertion{Seq: c.nextSeq(), Text: tImp(g, tEq(v, t)).S, Def: v.S})
}

// defGuardedPred is defGuarded for the edge coming from top-frame block pred (path-based slicing can drop it for
// obligations that this edge cannot reach).
func (c *Ctx) defGuardedPred(v *Term, g *Term, t *Term, pred int) {
	c.asserts = append(c.asserts, &Assertion{Seq: c.nextSeq(), Text: tImp(g, tEq(v, t)).S, Def: v.S, HasPred: pred >= 0, Pred: pred})
}

// markBlock records that assertions created from now on belong to top-frame block idx (-1: none).
func (c *Ctx) markBlock(idx int) {
	c.blockMarks = append(c.blockMarks, blockMark{start: len(c.asserts), block: idx})
	c.curTop = idx
}

type blockMark struct {
	start int
	block int
}

// topBlockOf returns the top-frame block during whose processing assertion i was created (-1 if none).
func (c *Ctx) topBlockOf(i int) int {
	lo, hi := 0, len(c.blockMarks)
	for lo < hi {
		m := (lo + hi) / 2
		if c.blockMarks[m].start <= i {
			lo = m + 1
		} else {
			hi = m
		}
	}
	if lo == 0 {
		return -1
	}
	return c.blockMarks[lo-1].block
}

func (c *Ctx) oblige(o *Obligation) *Obligation {
	o.Seq = c.nextSeq()
	o.Unit = c
	o.Top = c.curTop
	if o.Tags == nil {
		o.Tags = map[string]bool{}
	}
	c.obls = append(c.obls, o)
	// once checked, the fact may be used afterwards
	if !o.ExpectFail && !o.NoAssume {
		c.asserts = append(c.asserts, &Assertion{Seq: c.nextSeq(), Text: tImp(o.Guard, o.Goal).S, FromObl: o.Name})
	}
	return o
}

// ---------- heap names ----------

func (c *Ctx) heapName(name string, sort Sort) string {
	if _, ok := c.heapSorts[name]; !ok {
		c.heapSorts[name] = sort
		c.heapNames = append(c.heapNames, name)
		c.grew = true
	}
	return name
}

// State is a heap snapshot: heap name -> current SMT term.
type State struct {
	heap map[string]*Term
}

func (s *State) clone() *State {
	n := &State{heap: make(map[string]*Term, len(s.heap))}
	for k, v := range s.heap {
		n.heap[k] = v
	}
	return n
}

func (c *Ctx) heapGet(st *State, name string) *Term {
	if t, ok := st.heap[name]; ok {
		return t
	}
	sort, ok := c.heapSorts[name]
	if !ok {
		panic("heapGet of undeclared heap name " + name)
	}
	// entry version
	v := sanitize(name) + "@0"
	c.declare(v, sort)
	t := mk(sort, v)
	st.heap[name] = t
	return t
}

func (c *Ctx) noteWrite(name string) {
	if c.noNote > 0 || strings.HasPrefix(name, "lock!") {
		// the ghost lock-set is not part of a loop's write set: loop bodies are assumed lock-balanced
		return
	}
	for _, k := range c.curWriteKeys {
		m := c.blockWrites[k]
		if m == nil {
			m = map[string]bool{}
			c.blockWrites[k] = m
		}
		m[name] = true
	}
}

// writesOnlyFresh reports whether t is old extended by stores at references allocated in this unit.
func (c *Ctx) writesOnlyFresh(old, t *Term) bool {
	if old == nil {
		return false
	}
	for i := 0; i < 64; i++ {
		if t.S == old.S {
			return true
		}
		si := c.storeInfos[t.S]
		if si == nil {
			return false
		}
		if _, ok := c.allocOf[si.idx.S]; !ok {
			return false
		}
		t = si.base
	}
	return false
}

// freshTargets lists the own references (allocations of this unit) at which t extends old by stores.
func (c *Ctx) freshTargets(old, t *Term) []string {
	var out []string
	for i := 0; i < 64 && old != nil; i++ {
		if t.S == old.S {
			return out
		}
		si := c.storeInfos[t.S]
		if si == nil {
			return out
		}
		out = append(out, si.idx.S)
		t = si.base
	}
	return out
}

func (c *Ctx) heapSet(st *State, name string, t *Term) {
	if strings.HasPrefix(string(c.heapSorts[name]), "(Array Int ") && c.writesOnlyFresh(st.heap[name], t) {
		c.noteWrite("fresh:" + name)
		// also record where each written object was allocated ("frame:block" keys live at its allocation): a loop whose
		// body contains one of these keys writes an object of its own iteration, not one that existed before the loop
		for _, r := range c.freshTargets(st.heap[name], t) {
			c.noteWrite("freshat:" + name + "|" + strings.Join(c.allocKeys[r], ","))
		}
	} else {
		c.noteWrite(name)
	}
	d := c.define(name, t)
	if d.S != t.S {
		if si := c.storeInfos[t.S]; si != nil {
			c.storeInfos[d.S] = si
		}
	}
	st.heap[name] = d
}

func (c *Ctx) heapHavoc(st *State, name string) *Term {
	c.noteWrite(name)
	v := c.fresh(name, c.heapSorts[name])
	st.heap[name] = v
	if name == "bigval" {
		for gn, gi := range c.constGlobals {
			if gi.bigVal != nil {
				c.assumeGlobalFacts(st, gn)
			}
		}
	}
	return v
}

func (c *Ctx) havocAll(st *State) {
	// every name known (in this or the previous pass)
	ns := append([]string(nil), c.heapNames...)
	sort.Strings(ns)
	for _, n := range ns {
		if n == "$alloc" {
			old := c.heapGet(st, n)
			nv := c.heapHavoc(st, n)
			c.assume(tGe(nv, old))
			continue
		}
		if c.constGlobals[n] != nil {
			continue
		}
		if strings.HasPrefix(n, "ghost!") {
			if gd := c.prog.Ghosts[n[len("ghost!"):]]; gd != nil && gd.History {
				// a history ghost: calls without a contract are assumed not to perform the recorded event
				continue
			}
		}
		if strings.HasPrefix(n, "lock!") {
			// callees are assumed lock-balanced: they release what they acquire and leave the caller's locks alone
			continue
		}
		c.heapHavoc(st, n)
	}
	c.noteWrite("*")
}

// joinStates merges states under the given (mutually exclusive) guards.
func (c *Ctx) joinStates(guards []*Term, sts []*State) *State {
	if len(sts) == 1 {
		return sts[0].clone()
	}
	out := &State{heap: map[string]*Term{}}
	names := map[string]bool{}
	for _, s := range sts {
		for n := range s.heap {
			names[n] = true
		}
	}
	var ns []string
	for n := range names {
		ns = append(ns, n)
	}
	sort.Strings(ns)
	for _, n := range ns {
		first := c.heapGet(sts[0], n)
		same := true
		for _, s := range sts[1:] {
			if c.heapGet(s, n).S != first.S {
				same = false
				break
			}
		}
		if same {
			out.heap[n] = first
			continue
		}
		v := c.fresh(n, c.heapSorts[n])
		for i, s := range sts {
			pred := -1
			if i < len(c.curJoinPreds) {
				pred = c.curJoinPreds[i]
			}
			c.defGuardedPred(v, guards[i], c.heapGet(s, n), pred)
		}
		out.heap[n] = v
	}
	return out
}

// ---------- Go types -> sorts ----------

func isBigInt(t types.Type) bool {
	if n, ok := t.(*types.Named); ok {
		return n.Obj().Pkg() != nil && n.Obj().Pkg().Path() == "math/big" && n.Obj().Name() == "Int"
	}
	return false
}
func isBigFloat(t types.Type) bool {
	if n, ok := t.(*types.Named); ok {
		return n.Obj().Pkg() != nil && n.Obj().Pkg().Path() == "math/big" && (n.Obj().Name() == "Float" || n.Obj().Name() == "Rat")
	}
	return false
}
func isPtrTo(t types.Type, pred func(types.Type) bool) bool {
	if p, ok := t.Underlying().(*types.Pointer); ok {
		return pred(p.Elem())
	}
	return false
}

func typeName(t types.Type) string {
	return sanitize(types.TypeString(t, func(p *types.Package) string {
		path := p.Path()
		path = strings.TrimPrefix(path, modulePath+"/")
		return path
	}))
}

// opaque struct types: modelled as an uninterpreted value (never opened)
func isOpaqueStruct(t types.Type) bool {
	if n, ok := t.(*types.Named); ok && n.Obj().Pkg() != nil {
		switch n.Obj().Pkg().Path() {
		case "sync", "sync/atomic", "time", "math/big", "context", "reflect":
			return true
		}
	}
	return false
}

func (c *Ctx) sortOf(t types.Type) Sort {
	switch u := t.Underlying().(type) {
	case *types.Basic:
		switch {
		case u.Info()&types.IsBoolean != 0:
			return SBool
		case u.Info()&types.IsInteger != 0:
			return SInt
		case u.Info()&types.IsFloat != 0:
			return SReal
		case u.Info()&types.IsString != 0:
			return SStr
		case u.Kind() == types.UnsafePointer:
			return SInt
		case u.Kind() == types.UntypedNil:
			return SInt
		}
		return SInt
	case *types.Pointer, *types.Map, *types.Chan, *types.Signature, *types.Interface:
		return SInt
	case *types.Slice:
		return SSlice
	case *types.Array:
		return ArrSort(SInt, c.sortOf(u.Elem()))
	case *types.Struct:
		if isOpaqueStruct(t) {
			name := "Opq." + typeName(t)
			if !c.dtDecls[name] {
				c.dtDecls[name] = true
				c.sortDecls = append(c.sortDecls, fmt.Sprintf("(declare-sort %s 0)", name))
			}
			return Sort(name)
		}
		return c.structSort(t, u)
	case *types.Tuple:
		return SInt
	}
	return SInt
}

func (c *Ctx) structSort(t types.Type, u *types.Struct) Sort {
	key := typeName(t)
	if _, ok := t.(*types.Named); !ok {
		key = "anon." + sanitize(u.String())
		if len(key) > 60 {
			key = fmt.Sprintf("anon.%d.%d", u.NumFields(), len(c.structSorts))
			// keep stable per struct identity string
			for k, v := range c.structSorts {
				if strings.HasPrefix(k, "id:"+u.String()) {
					return v
				}
			}
			c.structSorts["id:"+u.String()] = Sort("S." + key)
		}
	}
	if s, ok := c.structSorts[key]; ok && c.dtDecls[string(s)] {
		return s
	}
	s := Sort("S." + key)
	c.structSorts[key] = s
	if c.dtDecls[string(s)] {
		return s
	}
	c.dtDecls[string(s)] = true
	var fs []string
	for i := 0; i < u.NumFields(); i++ {
		fs = append(fs, fmt.Sprintf("(%s %s)", fieldAccessor(s, i, u), c.sortOf(u.Field(i).Type())))
	}
	if u.NumFields() == 0 {
		c.sortDecls = append(c.sortDecls, fmt.Sprintf("(declare-datatypes ((%s 0)) (((mk!%s))))", s, s))
	} else {
		c.sortDecls = append(c.sortDecls, fmt.Sprintf("(declare-datatypes ((%s 0)) (((mk!%s %s))))", s, s, strings.Join(fs, " ")))
	}
	return s
}

func fieldAccessor(s Sort, i int, u *types.Struct) string {
	return fmt.Sprintf("%s!%s", s, sanitize(u.Field(i).Name()))
}

func (c *Ctx) mkStruct(t types.Type, fields []*Term) *Term {
	u := t.Underlying().(*types.Struct)
	s := c.sortOf(t)
	if u.NumFields() == 0 {
		return mk(s, "mk!"+string(s))
	}
	return app(s, "mk!"+string(s), fields...)
}

func (c *Ctx) structField(t types.Type, v *Term, i int) *Term {
	u := t.Underlying().(*types.Struct)
	s := c.sortOf(t)
	// accessor applied to a constructor term: pick the argument
	if prefix := "(mk!" + string(s) + " "; strings.HasPrefix(v.S, prefix) {
		k := len(prefix)
		for j := 0; ; j++ {
			for k < len(v.S) && v.S[k] == ' ' {
				k++
			}
			if k >= len(v.S) || v.S[k] == ')' {
				break
			}
			e := k
			if v.S[k] == '(' {
				e = skipSexp(v.S, k)
			} else {
				for e < len(v.S) && v.S[e] != ' ' && v.S[e] != ')' {
					e++
				}
			}
			if j == i {
				return mk(c.sortOf(u.Field(i).Type()), v.S[k:e])
			}
			k = e
		}
	}
	// known definitions: v is a symbol defined as a constructor term
	if d, ok := c.ctorDefs[v.S]; ok {
		return c.structField(t, d, i)
	}
	return app(c.sortOf(u.Field(i).Type()), fieldAccessor(s, i, u), v)
}

// zeroTerm is the Go zero value of type t.
func (c *Ctx) zeroTerm(t types.Type) *Term {
	switch u := t.Underlying().(type) {
	case *types.Basic:
		switch {
		case u.Info()&types.IsBoolean != 0:
			return tFalse
		case u.Info()&types.IsInteger != 0:
			return intLit(0)
		case u.Info()&types.IsFloat != 0:
			return mk(SReal, "0.0")
		case u.Info()&types.IsString != 0:
			return c.strLit("")
		}
		return intLit(0)
	case *types.Slice:
		return mk(SSlice, "(mk-slice 0 0 0)")
	case *types.Array:
		es := c.sortOf(u.Elem())
		return mk(ArrSort(SInt, es), fmt.Sprintf("((as const %s) %s)", ArrSort(SInt, es), c.zeroTerm(u.Elem()).S))
	case *types.Struct:
		if isOpaqueStruct(t) {
			s := c.sortOf(t)
			n := "zero." + string(s)
			c.declare(n, s)
			return mk(s, n)
		}
		var fs []*Term
		for i := 0; i < u.NumFields(); i++ {
			fs = append(fs, c.zeroTerm(u.Field(i).Type()))
		}
		return c.mkStruct(t, fs)
	}
	return intLit(0)
}

func (c *Ctx) strLit(s string) *Term {
	if t, ok := c.strLits[s]; ok {
		return t
	}
	name := fmt.Sprintf("strlit!%d", len(c.strLits))
	c.declare(name, SStr)
	t := mk(SStr, name)
	// distinct from earlier literals, length known
	for _, o := range c.strLits {
		c.asserts = append(c.asserts, &Assertion{Seq: 0, Text: fmt.Sprintf("(not (= %s %s))", name, o.S)})
	}
	c.asserts = append(c.asserts, &Assertion{Seq: 0, Text: fmt.Sprintf("(= (gstr.len %s) %d)", name, len(s))})
	c.strLits[s] = t
	return t
}

// intRange returns (lo, hi, ok) for integer types.
func intRange(t types.Type) (lo, hi string, ok bool) {
	b, isb := t.Underlying().(*types.Basic)
	if !isb || b.Info()&types.IsInteger == 0 {
		return "", "", false
	}
	switch b.Kind() {
	case types.Int8:
		return "(- 128)", "127", true
	case types.Int16:
		return "(- 32768)", "32767", true
	case types.Int32:
		return "(- 2147483648)", "2147483647", true
	case types.Int, types.Int64, types.UntypedInt:
		return "(- 9223372036854775808)", "9223372036854775807", true
	case types.Uint8:
		return "0", "255", true
	case types.Uint16:
		return "0", "65535", true
	case types.Uint32:
		return "0", "4294967295", true
	case types.Uint, types.Uint64, types.Uintptr:
		return "0", "18446744073709551615", true
	}
	return "", "", false
}

func intBits(t types.Type) (bits int, signed bool, ok bool) {
	b, isb := t.Underlying().(*types.Basic)
	if !isb || b.Info()&types.IsInteger == 0 {
		return 0, false, false
	}
	switch b.Kind() {
	case types.Int8:
		return 8, true, true
	case types.Int16:
		return 16, true, true
	case types.Int32:
		return 32, true, true
	case types.Int, types.Int64, types.UntypedInt:
		return 64, true, true
	case types.Uint8:
		return 8, false, true
	case types.Uint16:
		return 16, false, true
	case types.Uint32:
		return 32, false, true
	case types.Uint, types.Uint64, types.Uintptr:
		return 64, false, true
	}
	return 0, false, false
}

// typeConstraint is the always-true fact about a value v of Go type t (ranges, non-negative lengths).
func (c *Ctx) typeConstraint(t types.Type, v *Term) *Term {
	if lo, hi, ok := intRange(t); ok {
		return mk(SBool, fmt.Sprintf("(and (<= %s %s) (<= %s %s))", lo, v.S, v.S, hi))
	}
	return c.typeConstraintD(t, v, 0)
}

func (c *Ctx) typeConstraintD(t types.Type, v *Term, depth int) *Term {
	if lo, hi, ok := intRange(t); ok {
		return mk(SBool, fmt.Sprintf("(and (<= %s %s) (<= %s %s))", lo, v.S, v.S, hi))
	}
	switch u := t.Underlying().(type) {
	case *types.Slice:
		// len is an int in Go: never above MaxInt64
		return mk(SBool, fmt.Sprintf("(and (>= (s.len %s) 0) (<= (s.len %s) 9223372036854775807) (>= (s.off %s) 0) (>= (s.arr %s) 0))", v.S, v.S, v.S, v.S))
	case *types.Pointer, *types.Map:
		return mk(SBool, fmt.Sprintf("(>= %s 0)", v.S))
	case *types.Struct:
		// a struct value: the constraints of its fields (two levels are enough for the code under contract)
		if depth >= 2 || u.NumFields() > 24 {
			return tTrue
		}
		if !strings.HasPrefix(string(c.sortOf(t)), "S.") {
			return tTrue // opaque or otherwise encoded struct
		}
		var parts []string
		for i := 0; i < u.NumFields(); i++ {
			fc := c.typeConstraintD(u.Field(i).Type(), c.structField(t, v, i), depth+1)
			if fc != tTrue && fc.S != "true" {
				parts = append(parts, fc.S)
			}
		}
		switch len(parts) {
		case 0:
			return tTrue
		case 1:
			return mk(SBool, parts[0])
		}
		return mk(SBool, "(and "+strings.Join(parts, " ")+")")
	}
	return tTrue
}

// ---------- select/store simplification with allocation-based distinctness ----------

type storeInfo struct {
	base, idx, val *Term
}

// sto builds (store arr idx v) and remembers its structure.
func (c *Ctx) sto(arr, idx, v *Term) *Term {
	t := tStore(arr, idx, v)
	if c.storeInfos == nil {
		c.storeInfos = map[string]*storeInfo{}
	}
	c.storeInfos[t.S] = &storeInfo{arr, idx, v}
	return t
}

// sel builds (select arr idx), skipping stores at provably different references.
func (c *Ctx) sel(arr, idx *Term) *Term {
	for {
		si := c.storeInfos[arr.S]
		if si == nil {
			break
		}
		if si.idx.S == idx.S {
			return si.val
		}
		if c.distinctRefs(si.idx, idx) {
			arr = si.base
			continue
		}
		break
	}
	return tSelect(arr, idx)
}

func (c *Ctx) distinctRefs(i, j *Term) bool {
	ai, okA := c.allocOf[i.S]
	aj, okB := c.allocOf[j.S]
	if okA && okB {
		return ai != aj
	}
	if okA {
		if j.S == "0" {
			return true
		}
		ej, ok := c.refEpoch[j.S]
		return ok && ej < ai
	}
	if okB {
		if i.S == "0" {
			return true
		}
		ei, ok := c.refEpoch[i.S]
		return ok && ei < aj
	}
	return false
}

// bornNow records that reference term t exists at the current point (before any later allocation).
func (c *Ctx) bornNow(t *Term) {
	if c.refEpoch == nil {
		c.refEpoch = map[string]int{}
	}
	if _, ok := c.refEpoch[t.S]; !ok {
		c.refEpoch[t.S] = c.allocOrd
	}
}
