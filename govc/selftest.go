package main

import (
	"bufio"
	"encoding/json"
	"flag"
	"fmt"
	"os"
	"path/filepath"
	"strings"
	"sync"
)

// Mutant is one deliberately broken variant of a source file, applied in memory through packages.Config.Overlay.
type Mutant struct {
	ID       string `json:"id"`
	Property string `json:"property"`
	File     string `json:"file"` // relative to the repository root
	Old      string `json:"old"`
	New      string `json:"new"`
	Expect   string `json:"expect"` // substring of the obligation name that must fail ("" = any)
	Note     string `json:"note,omitempty"`
}

func loadMutants(path string) ([]Mutant, error) {
	f, err := os.Open(path)
	if err != nil {
		return nil, err
	}
	defer f.Close()
	var out []Mutant
	sc := bufio.NewScanner(f)
	sc.Buffer(make([]byte, 1<<20), 1<<20)
	ln := 0
	for sc.Scan() {
		ln++
		l := strings.TrimSpace(sc.Text())
		if l == "" || strings.HasPrefix(l, "#") {
			continue
		}
		var m Mutant
		if err := json.Unmarshal([]byte(l), &m); err != nil {
			return nil, fmt.Errorf("%s:%d: %v", path, ln, err)
		}
		out = append(out, m)
	}
	return out, nil
}

type mutantResult struct {
	M      Mutant
	Killed bool
	Failed []string
	Err    string
}

// runMutant applies m in memory and reports which obligations of its property fail.
func runMutant(m Mutant, scratch string, workers int) mutantResult {
	res := mutantResult{M: m}
	abs := filepath.Join(repoDir(), m.File)
	src, err := os.ReadFile(abs)
	if err != nil {
		res.Err = err.Error()
		return res
	}
	if strings.Count(string(src), m.Old) != 1 {
		res.Err = fmt.Sprintf("pattern occurs %d times in %s (must be exactly 1): mutant is stale", strings.Count(string(src), m.Old), m.File)
		return res
	}
	mutated := strings.Replace(string(src), m.Old, m.New, 1)
	// load only the package containing the file plus what the property needs: load everything for simplicity
	prog, err := LoadProgram(repoDir(), allPatterns(), map[string][]byte{abs: []byte(mutated)}, filepath.Join(verifDir, "govc", "lib"))
	if err != nil {
		res.Err = "mutant does not load: " + err.Error()
		return res
	}
	units := unitsFor(prog, m.Property, "quick")
	var all []*Obligation
	for _, u := range units {
		u.Ctx.prepare()
		for _, o := range u.Obls {
			if servesProperty(o, m.Property) {
				all = append(all, o)
			}
		}
		if len(u.Errors) > 0 {
			res.Failed = append(res.Failed, u.Name+"/contract-error")
		}
	}
	dir := filepath.Join(scratch, sanitize(m.ID))
	SolveAll(all, dir, workers, 3, 10, false)
	for _, o := range all {
		if !oblOK(o) {
			res.Failed = append(res.Failed, o.Name+" ["+o.Status+"]")
		}
	}
	for _, f := range res.Failed {
		if m.Expect == "" || strings.Contains(f, m.Expect) {
			res.Killed = true
		}
	}
	return res
}

func cmdSelftest(args []string) {
	fs := flag.NewFlagSet("selftest", flag.ExitOnError)
	prop := fs.String("property", "", "only mutants of this property")
	file := fs.String("file", filepath.Join(verifDir, "selftest", "mutants.jsonl"), "mutant corpus")
	par := fs.Int("j", 3, "mutants in parallel")
	fs.Parse(args)
	ms, err := loadMutants(*file)
	if err != nil {
		fmt.Println("selftest:", err)
		os.Exit(2)
	}
	var sel []Mutant
	for _, m := range ms {
		if *prop == "" || m.Property == *prop {
			if fs.NArg() > 0 {
				ok := false
				for _, a := range fs.Args() {
					if strings.Contains(m.ID, a) {
						ok = true
					}
				}
				if !ok {
					continue
				}
			}
			sel = append(sel, m)
		}
	}
	scratch, _ := os.MkdirTemp("", "govc-selftest-")
	defer os.RemoveAll(scratch)
	results := runMutants(sel, scratch, *par)
	survived := 0
	for _, r := range results {
		switch {
		case r.Err != "":
			fmt.Printf("ERROR    %s: %s\n", r.M.ID, r.Err)
			survived++
		case r.Killed:
			fmt.Printf("killed   %s (%s): %s\n", r.M.ID, r.M.Property, strings.Join(firstN(r.Failed, 3), "; "))
		default:
			fmt.Printf("SURVIVED %s (%s) expected %q; failing: %v\n", r.M.ID, r.M.Property, r.M.Expect, r.Failed)
			survived++
		}
	}
	fmt.Printf("selftest: %d mutants, %d killed, %d survived/errors\n", len(results), len(results)-survived, survived)
	if survived > 0 {
		os.RemoveAll(scratch)
		os.Exit(2)
	}
}

func runMutants(sel []Mutant, scratch string, par int) []mutantResult {
	results := make([]mutantResult, len(sel))
	var wg sync.WaitGroup
	sem := make(chan struct{}, par)
	for i := range sel {
		wg.Add(1)
		go func(i int) {
			defer wg.Done()
			sem <- struct{}{}
			defer func() { <-sem }()
			results[i] = runMutant(sel[i], scratch, 5)
		}(i)
	}
	wg.Wait()
	return results
}

func firstN(s []string, n int) []string {
	if len(s) > n {
		return s[:n]
	}
	return s
}
