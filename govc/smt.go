package main

import (
	"fmt"
	"math/big"
	"strings"
)

// Sort is an SMT-LIB sort written out.
type Sort string

const (
	SInt   Sort = "Int"
	SBool  Sort = "Bool"
	SReal  Sort = "Real"
	SStr   Sort = "Str"
	SSlice Sort = "Slice"
)

func ArrSort(idx, elem Sort) Sort { return Sort("(Array " + string(idx) + " " + string(elem) + ")") }

// Term is an immutable SMT term with its sort.
type Term struct {
	S    string
	Sort Sort
}

func (t *Term) String() string { return t.S }

func mk(sort Sort, s string) *Term { return &Term{S: simplifySliceAcc(s), Sort: sort} }

// splitSexprArgs splits the top-level arguments of "a (b c) d" (balanced parentheses assumed).
func splitSexprArgs(s string) []string {
	var out []string
	depth, start := 0, -1
	for i := 0; i < len(s); i++ {
		ch := s[i]
		switch {
		case ch == '(':
			if depth == 0 && start < 0 {
				start = i
			}
			depth++
		case ch == ')':
			depth--
			if depth == 0 && start >= 0 {
				out = append(out, s[start:i+1])
				start = -1
			}
		case ch == ' ':
			if depth == 0 && start >= 0 {
				out = append(out, s[start:i])
				start = -1
			}
		default:
			if depth == 0 && start < 0 {
				start = i
			}
		}
	}
	if start >= 0 {
		out = append(out, s[start:])
	}
	return out
}

// simplifySliceAcc folds the projections of an explicit slice triple: (s.arr (mk-slice a o l)) = a, (s.off ..) = o,
// (s.len ..) = l, (sidx (mk-slice a o l) i) = o + i. Besides shortening queries this lets the write tracker see that an
// element store goes to an array allocated in the current function (framed loop havoc).
func simplifySliceAcc(s string) string {
	const mkp = "(mk-slice "
	for _, acc := range [...]string{"(s.arr ", "(s.off ", "(s.len "} {
		if strings.HasPrefix(s, acc+mkp) && strings.HasSuffix(s, "))") {
			args := splitSexprArgs(s[len(acc)+len(mkp) : len(s)-2])
			if len(args) == 3 {
				switch acc {
				case "(s.arr ":
					return args[0]
				case "(s.off ":
					return args[1]
				default:
					return args[2]
				}
			}
		}
	}
	if strings.HasPrefix(s, "(sidx "+mkp) && strings.HasSuffix(s, ")") {
		top := splitSexprArgs(s[len("(sidx ") : len(s)-1])
		if len(top) == 2 && strings.HasPrefix(top[0], mkp) {
			args := splitSexprArgs(top[0][len(mkp) : len(top[0])-1])
			if len(args) == 3 {
				if args[1] == "0" {
					return top[1]
				}
				return "(+ " + args[1] + " " + top[1] + ")"
			}
		}
	}
	return s
}

func app(sort Sort, f string, args ...*Term) *Term {
	var b strings.Builder
	b.WriteByte('(')
	b.WriteString(f)
	for _, a := range args {
		b.WriteByte(' ')
		b.WriteString(a.S)
	}
	b.WriteByte(')')
	return &Term{S: b.String(), Sort: sort}
}

var (
	tTrue  = mk(SBool, "true")
	tFalse = mk(SBool, "false")
)

func intLit(n int64) *Term { return bigLit(big.NewInt(n)) }

func bigLit(n *big.Int) *Term {
	if n.Sign() < 0 {
		return mk(SInt, "(- "+new(big.Int).Neg(n).String()+")")
	}
	return mk(SInt, n.String())
}

func realLitRat(r *big.Rat) *Term {
	num, den := r.Num(), r.Denom()
	s := ""
	if num.Sign() < 0 {
		s = fmt.Sprintf("(- (/ %s.0 %s.0))", new(big.Int).Neg(num).String(), den.String())
	} else {
		s = fmt.Sprintf("(/ %s.0 %s.0)", num.String(), den.String())
	}
	return mk(SReal, s)
}

func tAnd(ts ...*Term) *Term {
	var xs []*Term
	for _, t := range ts {
		if t == nil || t.S == "true" {
			continue
		}
		if t.S == "false" {
			return tFalse
		}
		xs = append(xs, t)
	}
	if len(xs) == 0 {
		return tTrue
	}
	if len(xs) == 1 {
		return xs[0]
	}
	return app(SBool, "and", xs...)
}

func tOr(ts ...*Term) *Term {
	var xs []*Term
	for _, t := range ts {
		if t == nil || t.S == "false" {
			continue
		}
		if t.S == "true" {
			return tTrue
		}
		xs = append(xs, t)
	}
	if len(xs) == 0 {
		return tFalse
	}
	if len(xs) == 1 {
		return xs[0]
	}
	return app(SBool, "or", xs...)
}

func tNot(t *Term) *Term {
	if t.S == "true" {
		return tFalse
	}
	if t.S == "false" {
		return tTrue
	}
	if strings.HasPrefix(t.S, "(not ") {
		return mk(SBool, t.S[5:len(t.S)-1])
	}
	return app(SBool, "not", t)
}

func tImp(a, b *Term) *Term {
	if a.S == "true" {
		return b
	}
	if a.S == "false" || b.S == "true" {
		return tTrue
	}
	return app(SBool, "=>", a, b)
}

func isNumLit(s string) bool {
	if s == "" {
		return false
	}
	for _, r := range s {
		if r < '0' || r > '9' {
			return false
		}
	}
	return true
}

func tEq(a, b *Term) *Term {
	if a.S == b.S {
		return tTrue
	}
	if a.Sort == SInt && isNumLit(a.S) && isNumLit(b.S) {
		return tFalse // two different non-negative literals
	}
	return app(SBool, "=", a, b)
}

func tIte(c, a, b *Term) *Term {
	if c.S == "true" {
		return a
	}
	if c.S == "false" {
		return b
	}
	if a.S == b.S {
		return a
	}
	return app(a.Sort, "ite", c, a, b)
}

func tSelect(arr, idx *Term) *Term {
	// (Array I E) -> E
	s := string(arr.Sort)
	es := elemSortOf(Sort(s))
	return app(es, "select", arr, idx)
}

func tStore(arr, idx, v *Term) *Term { return app(arr.Sort, "store", arr, idx, v) }

// elemSortOf parses "(Array I E)" and returns E.
func elemSortOf(s Sort) Sort {
	str := string(s)
	if !strings.HasPrefix(str, "(Array ") {
		panic("not an array sort: " + str)
	}
	inner := str[len("(Array ") : len(str)-1]
	// skip the index sort
	i := skipSexp(inner, 0)
	return Sort(strings.TrimSpace(inner[i:]))
}

func idxSortOf(s Sort) Sort {
	str := string(s)
	inner := str[len("(Array ") : len(str)-1]
	i := skipSexp(inner, 0)
	return Sort(strings.TrimSpace(inner[:i]))
}

func skipSexp(s string, i int) int {
	for i < len(s) && s[i] == ' ' {
		i++
	}
	if i < len(s) && s[i] == '(' {
		d := 0
		for ; i < len(s); i++ {
			if s[i] == '(' {
				d++
			} else if s[i] == ')' {
				d--
				if d == 0 {
					return i + 1
				}
			}
		}
		return i
	}
	for i < len(s) && s[i] != ' ' {
		i++
	}
	return i
}

func tAdd(a, b *Term) *Term { return app(SInt, "+", a, b) }
func tSub(a, b *Term) *Term { return app(SInt, "-", a, b) }
func tMul(a, b *Term) *Term { return app(SInt, "*", a, b) }
func tLe(a, b *Term) *Term  { return app(SBool, "<=", a, b) }
func tLt(a, b *Term) *Term  { return app(SBool, "<", a, b) }
func tGe(a, b *Term) *Term  { return app(SBool, ">=", a, b) }
func tGt(a, b *Term) *Term  { return app(SBool, ">", a, b) }

// Euclidean div/mod (SMT-LIB semantics).
func tDivE(a, b *Term) *Term { return app(SInt, "div", a, b) }
func tModE(a, b *Term) *Term { return app(SInt, "mod", a, b) }

// truncated quotient/remainder (Go's / and % on ints, big.Int.Quo/Rem), defined via helper functions in the prelude.
func tQuoT(a, b *Term) *Term { return app(SInt, "quoT", a, b) }
func tRemT(a, b *Term) *Term { return app(SInt, "remT", a, b) }

// sanitize turns an arbitrary string into an SMT simple symbol.
func sanitize(s string) string {
	var b strings.Builder
	for _, r := range s {
		switch {
		case r >= 'a' && r <= 'z', r >= 'A' && r <= 'Z', r >= '0' && r <= '9', r == '_', r == '.', r == '!', r == '$', r == '@', r == '#':
			b.WriteRune(r)
		case r == '/':
			b.WriteByte('.')
		case r == '*':
			b.WriteString("ptr.")
		case r == '[':
			b.WriteString("_L")
		case r == ']':
			b.WriteString("R_")
		case r == '(' || r == ')' || r == ' ' || r == ',' || r == '{' || r == '}' || r == ';':
			b.WriteByte('_')
		default:
			fmt.Fprintf(&b, "_%x", r)
		}
	}
	return b.String()
}

const prelude = `
(define-fun quoT ((a Int) (b Int)) Int (ite (>= a 0) (div a b) (- (div (- a) b))))
(define-fun remT ((a Int) (b Int)) Int (- a (* b (quoT a b))))
(define-fun absI ((a Int)) Int (ite (>= a 0) a (- a)))
(define-fun minI ((a Int) (b Int)) Int (ite (<= a b) a b))
(define-fun maxI ((a Int) (b Int)) Int (ite (>= a b) a b))
(define-fun sgnI ((a Int)) Int (ite (> a 0) 1 (ite (< a 0) (- 1) 0)))
(define-fun sgnR ((a Real)) Int (ite (> a 0.0) 1 (ite (< a 0.0) (- 1) 0)))
(define-fun truncR ((a Real)) Int (ite (>= a 0.0) (to_int a) (- (to_int (- a)))))
(declare-sort Str 0)
(declare-datatypes ((Slice 0)) (((mk-slice (s.arr Int) (s.off Int) (s.len Int)))))
(declare-fun sidx (Slice Int) Int)
(assert (forall ((s Slice) (i Int)) (! (= (sidx s i) (+ (s.off s) i)) :pattern ((sidx s i)))))
(declare-fun gstr.len (Str) Int)
(declare-fun isqrt (Int) Int)
`
