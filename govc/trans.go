package main

import (
	"os"
	"fmt"
	"go/constant"
	"go/token"
	"go/types"
	"math/big"
	"sort"
	"strings"

	"golang.org/x/tools/go/ssa"
)

// ---------- values ----------

type LocKind int

const (
	LRefStruct LocKind = iota // the struct object at reference Ref
	LCell                     // heap array Name selected at Idx...
	LProj                     // projection (field / index) inside the value at Parent
)

type Loc struct {
	Kind   LocKind
	Ref    *Term
	Name   string
	Idx    []*Term
	Parent *Loc
	Field  int
	Index  *Term
	Elem   types.Type // type of the value stored at this location
}

type Closure struct {
	Fn       *ssa.Function
	Bindings []Val
}

type Val struct {
	T     *Term
	Loc   *Loc
	Tuple []Val
	Clo   *Closure
	Dyn   types.Type // for interface values: statically known dynamic type
	DynV  *Val       // payload when Dyn != nil
	// Alts: a function value that is one of several statically known closures / bound methods, depending on the path
	// taken (phi of function values, e.g. "f := a.M1; if c { f = a.M2 }"); a call through it is split per alternative
	Alts []AltVal
	// DynAlts: an interface value whose dynamic type is one of several statically known ones, depending on the path taken
	// (e.g. "var c Coin = model; if x { c = Dummy{...} }"): a method call through it is split per alternative, each
	// alternative dispatched to the concrete method
	DynAlts []DynAlt
}

type AltVal struct {
	G *Term
	V Val
}

type DynAlt struct {
	G   *Term
	Dyn types.Type
	V   Val
}

func tv(t *Term) Val { return Val{T: t} }

// ---------- frames ----------

type deferred struct {
	call  *ssa.CallCommon
	guard *Term
	args  []Val // evaluated at defer time
	fnVal Val
}

type retInfo struct {
	guard *Term
	vals  []Val
	st    *State
	block int
}

type Frame struct {
	c        *Ctx
	fn       *ssa.Function
	vals     map[ssa.Value]Val
	depth    int
	parent   *Frame
	id       string
	defers   []deferred
	entry    *State
	params   []Val
	freeVars []Val
	contract *Contract // only for the top frame
	loops    map[*ssa.BasicBlock]int
	names    map[string][]nameBinding // source-level variable name -> SSA values (from DebugRef)
	callSeq  int
	pending  []pendingEdge
	iters    map[ssa.Value]*rangeState
	backEdges map[int]int
	guardOf  map[ssa.Value]*guardInfo // values loaded from a lock-guarded field (lock discipline, C25)
	arrSlices map[string]*Loc         // slice term cut from an array (x[:]) -> the array's location
}

type nameBinding struct {
	v     ssa.Value
	block *ssa.BasicBlock
	addr  bool
	pos   token.Pos
}

const maxInlineDepth = 4
const maxInlineInstrs = 60

func (fr *Frame) onStack(fn *ssa.Function) bool {
	for f := fr; f != nil; f = f.parent {
		if f.fn == fn {
			return true
		}
	}
	return false
}

func (c *Ctx) posOf(p token.Pos) string {
	if c.fset == nil || !p.IsValid() {
		return ""
	}
	ps := c.fset.Position(p)
	fn := strings.TrimPrefix(ps.Filename, c.prog.RepoDir+"/")
	return fmt.Sprintf("%s:%d", fn, ps.Line)
}

// ---------- locations ----------

func (c *Ctx) fieldArrayName(structT types.Type, i int) string {
	u := structT.Underlying().(*types.Struct)
	name := "F!" + typeName(structT) + "!" + sanitize(u.Field(i).Name())
	return c.heapName(name, ArrSort(SInt, c.sortOf(u.Field(i).Type())))
}

func (c *Ctx) cellName(s Sort) string {
	return c.heapName("cell!"+sanitize(string(s)), ArrSort(SInt, s))
}

// elemNameT: the element array of slices with element type el. Slices of pointers get an array family of their own
// ("elem!Ptr"): they are never aliased with byte or integer slices, and keeping them apart keeps the many versions of
// the byte array (every string/[]byte conversion writes one) out of queries about lists of objects.
func (c *Ctx) elemNameT(el types.Type) string {
	if _, ok := el.Underlying().(*types.Pointer); ok {
		return c.heapName("elem!Ptr", ArrSort(SInt, ArrSort(SInt, SInt)))
	}
	return c.elemName(c.sortOf(el))
}

func (c *Ctx) elemName(s Sort) string {
	return c.heapName("elem!"+sanitize(string(s)), ArrSort(SInt, ArrSort(SInt, s)))
}

func (c *Ctx) bigvalName() string { return c.heapName("bigval", ArrSort(SInt, SInt)) }
func (c *Ctx) realvalName() string {
	c.usesReal = true
	return c.heapName("realval", ArrSort(SInt, SReal))
}
func (c *Ctx) allocName() string { return c.heapName("$alloc", SInt) }

// derefLoc gives the location a pointer value points to.
func (c *Ctx) derefLoc(v Val, ptrT types.Type) *Loc {
	if v.Loc != nil {
		return v.Loc
	}
	pt, ok := ptrT.Underlying().(*types.Pointer)
	if !ok {
		panic("derefLoc of non-pointer " + ptrT.String())
	}
	el := pt.Elem()
	if _, isStruct := el.Underlying().(*types.Struct); isStruct && !isOpaqueStruct(el) {
		return &Loc{Kind: LRefStruct, Ref: v.T, Elem: el}
	}
	return &Loc{Kind: LCell, Name: c.cellName(c.sortOf(el)), Idx: []*Term{v.T}, Elem: el}
}

func (c *Ctx) load(st *State, l *Loc) *Term {
	switch l.Kind {
	case LRefStruct:
		u := l.Elem.Underlying().(*types.Struct)
		var fs []*Term
		for i := 0; i < u.NumFields(); i++ {
			fs = append(fs, c.sel(c.heapGet(st, c.fieldArrayName(l.Elem, i)), l.Ref))
		}
		return c.mkStruct(l.Elem, fs)
	case LCell:
		t := c.heapGet(st, l.Name)
		for _, i := range l.Idx {
			t = c.sel(t, i)
		}
		return t
	case LProj:
		pv := c.load(st, l.Parent)
		if l.Index != nil {
			return tSelect(pv, l.Index)
		}
		return c.structField(l.Parent.Elem, pv, l.Field)
	}
	panic("load")
}

func (c *Ctx) store(st *State, l *Loc, v *Term) {
	switch l.Kind {
	case LRefStruct:
		u := l.Elem.Underlying().(*types.Struct)
		for i := 0; i < u.NumFields(); i++ {
			n := c.fieldArrayName(l.Elem, i)
			c.heapSet(st, n, c.sto(c.heapGet(st, n), l.Ref, c.structField(l.Elem, v, i)))
		}
	case LCell:
		root := c.heapGet(st, l.Name)
		switch len(l.Idx) {
		case 0:
			c.heapSet(st, l.Name, v)
		case 1:
			c.heapSet(st, l.Name, c.sto(root, l.Idx[0], v))
		case 2:
			inner := c.sel(root, l.Idx[0])
			c.heapSet(st, l.Name, c.sto(root, l.Idx[0], c.sto(inner, l.Idx[1], v)))
		default:
			panic("store: too many indices")
		}
	case LProj:
		pv := c.load(st, l.Parent)
		if len(pv.S) > 160 {
			// name the aggregate: it is repeated once per field below, and nested element-wise initialisation of a
			// composite literal would otherwise grow the term exponentially
			pv = c.define("agg", pv)
		}
		if l.Index != nil {
			c.store(st, l.Parent, tStore(pv, l.Index, v))
			return
		}
		u := l.Parent.Elem.Underlying().(*types.Struct)
		var fs []*Term
		for i := 0; i < u.NumFields(); i++ {
			if i == l.Field {
				fs = append(fs, v)
			} else {
				fs = append(fs, c.structField(l.Parent.Elem, pv, i))
			}
		}
		c.store(st, l.Parent, c.mkStruct(l.Parent.Elem, fs))
	}
}

// locTerm turns a location into a pointer term when it escapes.
func (c *Ctx) locTerm(l *Loc) (*Term, bool) {
	if l.Kind == LRefStruct {
		return l.Ref, true
	}
	if l.Kind == LCell && len(l.Idx) == 1 && strings.HasPrefix(l.Name, "cell!") {
		return l.Idx[0], true
	}
	return nil, false
}

func (c *Ctx) valTerm(v Val, what string) *Term {
	if v.T != nil {
		return v.T
	}
	if v.Loc != nil {
		if t, ok := c.locTerm(v.Loc); ok {
			return t
		}
		// interior pointer escaping: opaque address; deterministic per (array, index)
		c.warn("interior pointer escapes (%s): treated as opaque address", what)
		key := "addr!" + sanitize(v.Loc.Name)
		if v.Loc.Kind == LCell && len(v.Loc.Idx) == 1 {
			c.declareFun(key, []Sort{SInt}, SInt)
			return app(SInt, key, v.Loc.Idx[0])
		}
		return c.fresh("addr", SInt)
	}
	if v.Clo != nil {
		return c.fresh("closure", SInt)
	}
	if v.Tuple != nil {
		return c.fresh("tuple", SInt)
	}
	return c.fresh("undef", SInt)
}

// ---------- allocation ----------

func (c *Ctx) allocRef(st *State, g *Term, hint string) *Term {
	a := c.heapGet(st, c.allocName())
	r := c.defineAlways(hint, tAdd(a, intLit(1)))
	c.allocOrd++
	c.allocOf[r.S] = c.allocOrd
	if c.allocKeys != nil {
		c.allocKeys[r.S] = append([]string(nil), c.curWriteKeys...)
	}
	c.heapSet(st, c.allocName(), r)
	return r
}

// freshVal creates an unconstrained value of Go type t (with its type constraint assumed under g).
func (c *Ctx) freshVal(st *State, g *Term, t types.Type, hint string) Val {
	if tup, ok := t.(*types.Tuple); ok {
		var vs []Val
		for i := 0; i < tup.Len(); i++ {
			vs = append(vs, c.freshVal(st, g, tup.At(i).Type(), fmt.Sprintf("%s.%d", hint, i)))
		}
		return Val{Tuple: vs}
	}
	v := c.fresh(hint, c.sortOf(t))
	c.bornNow(v)
	c.assumeG(g, c.typeConstraint(t, v))
	c.assumeAllocated(st, g, t, v)
	return tv(v)
}

// assumeAllocated: any reference obtained from memory or a call was allocated before now.
func (c *Ctx) assumeAllocated(st *State, g *Term, t types.Type, v *Term) {
	c.assumeAllocatedD(st, g, t, v, 0)
}

func (c *Ctx) assumeAllocatedD(st *State, g *Term, t types.Type, v *Term, depth int) {
	switch u := t.Underlying().(type) {
	case *types.Pointer, *types.Map:
		c.assumeG(g, tLe(v, c.heapGet(st, c.allocName())))
	case *types.Slice:
		c.assumeG(g, tLe(mk(SInt, "(s.arr "+v.S+")"), c.heapGet(st, c.allocName())))
	case *types.Struct:
		// references held in the fields of a struct value exist as well
		if depth >= 2 || u.NumFields() > 24 || !strings.HasPrefix(string(c.sortOf(t)), "S.") {
			return
		}
		for i := 0; i < u.NumFields(); i++ {
			switch u.Field(i).Type().Underlying().(type) {
			case *types.Pointer, *types.Map, *types.Slice, *types.Struct:
				c.assumeAllocatedD(st, g, u.Field(i).Type(), c.structField(t, v, i), depth+1)
			}
		}
	}
}

// assumeLoadedRef: a reference read from heap array `name` in state st was allocated before; if the array is still
// the function-entry version, before the function started.
func (c *Ctx) assumeLoadedRef(st *State, name string, t types.Type, v *Term, idx ...*Term) {
	var lhs *Term
	switch t.Underlying().(type) {
	case *types.Pointer, *types.Map:
		lhs = v
	case *types.Slice:
		lhs = mk(SInt, "(s.arr "+v.S+")")
	default:
		return
	}
	bound := c.heapGet(st, c.allocName())
	c.assume(mk(SBool, fmt.Sprintf("(and (>= %s 0) (<= %s %s))", lhs.S, lhs.S, bound.S)))
	if cur, ok := st.heap[name]; !ok || cur.S == sanitize(name)+"@0" {
		// the array still is the function-entry version: a cell of an object that existed at entry holds a reference
		// that existed at entry (cells at references allocated later are meaningless in the entry array)
		a0 := mk(SInt, sanitize("$alloc")+"@0")
		c.declare(a0.S, SInt)
		if len(idx) == 0 || idx[0] == nil {
			return
		}
		c.assume(mk(SBool, fmt.Sprintf("(=> (<= %s %s) (<= %s %s))", idx[0].S, a0.S, lhs.S, a0.S)))
	}
}

// ---------- constants ----------

func (c *Ctx) constVal(k *ssa.Const) Val {
	t := k.Type()
	if k.Value == nil {
		return tv(c.zeroTerm(t))
	}
	switch u := t.Underlying().(type) {
	case *types.Basic:
		switch {
		case u.Info()&types.IsBoolean != 0:
			if constant.BoolVal(k.Value) {
				return tv(tTrue)
			}
			return tv(tFalse)
		case u.Info()&types.IsInteger != 0:
			s := k.Value.ExactString()
			n, ok := new(big.Int).SetString(s, 10)
			if !ok {
				// may be a float-typed constant convertible to int
				if iv := constant.ToInt(k.Value); iv.Kind() == constant.Int {
					n, _ = new(big.Int).SetString(iv.ExactString(), 10)
				} else {
					n = big.NewInt(0)
				}
			}
			return tv(bigLit(n))
		case u.Info()&types.IsFloat != 0:
			c.usesReal = true
			// the exact value of the float64 constant
			f, _ := constant.Float64Val(k.Value)
			r := new(big.Rat)
			if u.Kind() == types.Float32 {
				f32 := float32(f)
				r.SetFloat64(float64(f32))
			} else {
				r.SetFloat64(f)
			}
			return tv(realLitRat(r))
		case u.Info()&types.IsString != 0:
			return tv(c.strLit(constant.StringVal(k.Value)))
		}
	}
	return tv(c.zeroTerm(t))
}

// ---------- frame execution ----------

func (c *Ctx) newFrame(fn *ssa.Function, parent *Frame) *Frame {
	fr := &Frame{c: c, fn: fn, vals: map[ssa.Value]Val{}, parent: parent}
	if parent != nil {
		fr.depth = parent.depth + 1
		parent.callSeq++
		fr.id = fmt.Sprintf("%s>%s#%d", parent.id, fn.Name(), parent.callSeq)
	} else {
		fr.id = fn.Name()
	}
	return fr
}

func (fr *Frame) get(v ssa.Value) Val {
	c := fr.c
	switch x := v.(type) {
	case *ssa.Const:
		return c.constVal(x)
	case *ssa.Global:
		return Val{Loc: c.globalLoc(x)}
	case *ssa.Function:
		return Val{Clo: &Closure{Fn: x}}
	case *ssa.Builtin:
		return Val{}
	}
	if val, ok := fr.vals[v]; ok {
		return val
	}
	// used before definition (only possible through unsupported shapes): unconstrained
	c.warn("value %s used before definition in %s", v.Name(), fr.fn.Name())
	nv := tv(c.fresh(v.Name(), c.sortOf(v.Type())))
	fr.vals[v] = nv
	return nv
}

func (fr *Frame) term(v ssa.Value) *Term { return fr.c.valTerm(fr.get(v), v.Name()) }

type edgeIn struct {
	guard *Term
	st    *State
	pred  *ssa.BasicBlock
}

// exec runs fn's body symbolically starting in state st under guard g and returns the return points.
func (fr *Frame) exec(st *State, g *Term) []retInfo {
	c := fr.c
	fn := fr.fn
	fr.entry = st.clone()
	// bind parameters
	for i, p := range fn.Params {
		fr.vals[p] = fr.params[i]
	}
	for i, fv := range fn.FreeVars {
		if i < len(fr.freeVars) {
			fr.vals[fv] = fr.freeVars[i]
		}
	}
	fr.collectNames()

	blocks := fn.Blocks
	if len(blocks) == 0 {
		return nil
	}
	// back edges: b -> h where h dominates b
	isBack := func(from, to *ssa.BasicBlock) bool { return to.Dominates(from) }
	// loop headers in block index order get ordinals
	fr.loops = map[*ssa.BasicBlock]int{}
	nl := 0
	for _, b := range blocks {
		for _, p := range b.Preds {
			if isBack(p, b) {
				if _, ok := fr.loops[b]; !ok {
					fr.loops[b] = nl
					nl++
				}
			}
		}
	}
	// topological order ignoring back edges
	indeg := map[*ssa.BasicBlock]int{}
	for _, b := range blocks {
		for _, p := range b.Preds {
			if !isBack(p, b) {
				indeg[b]++
			}
		}
	}
	var order []*ssa.BasicBlock
	var work []*ssa.BasicBlock
	for _, b := range blocks {
		if indeg[b] == 0 {
			work = append(work, b)
		}
	}
	for len(work) > 0 {
		// pick lowest index for determinism
		sort.Slice(work, func(i, j int) bool { return work[i].Index < work[j].Index })
		b := work[0]
		work = work[1:]
		order = append(order, b)
		for _, s := range b.Succs {
			if isBack(b, s) {
				continue
			}
			indeg[s]--
			if indeg[s] == 0 {
				work = append(work, s)
			}
		}
	}
	inEdges := map[*ssa.BasicBlock][]edgeIn{}
	inEdges[blocks[0]] = []edgeIn{{guard: g, st: st}}
	var rets []retInfo

	for _, b := range order {
		if fn.Recover != nil && b == fn.Recover {
			continue
		}
		in := inEdges[b]
		if len(in) == 0 {
			continue
		}
		key := fmt.Sprintf("%s:%d", fr.id, b.Index)
		c.curWriteKeys = append(c.curWriteKeys, key)
		var bg *Term
		var bst *State
		var guards []*Term
		var sts []*State
		var preds []int
		for _, e := range in {
			guards = append(guards, e.guard)
			sts = append(sts, e.st)
			if e.pred != nil {
				preds = append(preds, e.pred.Index)
			} else {
				preds = append(preds, -1)
			}
		}
		if fr.depth == 0 {
			// path-based slicing: remember which block the following assertions belong to, and who can reach it
			if c.topAnc == nil {
				c.topAnc = map[int]map[int]bool{}
			}
			anc := map[int]bool{}
			for _, e := range in {
				if e.pred != nil {
					anc[e.pred.Index] = true
					for a := range c.topAnc[e.pred.Index] {
						anc[a] = true
					}
				}
			}
			c.topAnc[b.Index] = anc
			c.markBlock(b.Index)
			c.curJoinPreds = preds
		}
		bg = c.define("g."+fn.Name()+"."+fmt.Sprint(b.Index), tOr(guards...))
		if ord, isLoop := fr.loops[b]; isLoop {
			// check invariants on entry edges
			invs := fr.loopInvariants(ord)
			for ei, e := range in {
				sfx := ""
				if ei > 0 {
					sfx = fmt.Sprintf("@%d", ei)
				}
				for k, inv := range invs {
					goal := fr.evalInvariant(inv, b, e.pred, e.st)
					c.oblige(&Obligation{Name: fmt.Sprintf("%s/inv-entry#loop%d.%s%s", c.unitName, ord, clauseLabel(inv, k), sfx), Func: c.unitName, Kind: "inv-entry",
						Guard: e.guard, Goal: goal, Pos: fmt.Sprintf("%s:%d", inv.File, inv.Line), Src: inv.Src, Tags: inv.Tags})
				}
			}
			bst = c.joinStates(guards, sts)
			// havoc what the loop body may write
			mods := fr.loopMods(b)
			if os.Getenv("GOVC_DEBUG_MODS") != "" {
				var ms []string
				for m := range mods {
					ms = append(ms, m)
				}
				sort.Strings(ms)
				fmt.Fprintf(os.Stderr, "loop %d of %s writes: %v\n", ord, fn.Name(), ms)
			}
			c.noNote++
			if mods == nil || mods["*"] {
				c.havocAll(bst)
			} else {
				var ms []string
				for m := range mods {
					ms = append(ms, m)
				}
				sort.Strings(ms)
				// the allocation frontier when the loop is entered, and the objects this function itself has allocated so far
				allocHead := c.heapGet(bst, c.allocName())
				var ownRefs []string
				for r := range c.allocOf {
					ownRefs = append(ownRefs, r)
				}
				sort.Strings(ownRefs)
				notOwn := ""
				for _, r := range ownRefs {
					notOwn += " (not (= fr " + r + "))"
				}
				if os.Getenv("GOVC_OLDFRAME") != "" {
					a0 := sanitize("$alloc") + "@0"
					c.declare(a0, SInt)
					allocHead, notOwn = mk(SInt, a0), ""
				}
				for _, m := range ms {
					if strings.HasPrefix(m, "fresh:") {
						// the loop writes this array only at objects allocated by this function (the store's target is literally an
						// allocation of this function): either one made before the loop was entered - one of ownRefs - or one made
						// inside the loop, which lies beyond the frontier. Every other object that exists when the loop is entered
						// keeps its contents (framed havoc); this includes objects allocated by earlier iterations of an enclosing loop.
						name := m[len("fresh:"):]
						if mods[name] {
							continue
						}
						if _, ok := c.heapSorts[name]; !ok {
							continue
						}
						pre := c.heapGet(bst, name)
						nv := c.heapHavoc(bst, name)
						// does the body write this array at an own object that was allocated outside the loop body? (records
						// "freshat:<name>|<keys live at the allocation>": inside the body iff one of the keys is a body block)
						excl := notOwn
						if os.Getenv("GOVC_OLDFRAME") == "" {
							bodyKeys := map[string]bool{}
							for bb := range naturalLoop(b) {
								bodyKeys[fmt.Sprintf("%s:%d", fr.id, bb.Index)] = true
							}
							outer := false
							pfx := "freshat:" + name + "|"
							for rec := range mods {
								if !strings.HasPrefix(rec, pfx) {
									continue
								}
								inside := false
								for _, k := range strings.Split(rec[len(pfx):], ",") {
									if bodyKeys[k] {
										inside = true
									}
								}
								if !inside {
									outer = true
								}
							}
							if !outer {
								excl = "" // every own object written was allocated by the same iteration: beyond the frontier
							}
						}
						c.assume(mk(SBool, fmt.Sprintf("(forall ((fr Int)) (! (=> (and (<= fr %s)%s) (= (select %s fr) (select %s fr))) :pattern ((select %s fr))))", allocHead.S, excl, nv.S, pre.S, nv.S)))
						if excl != "" {
							// the special case of objects that existed at function entry, stated separately: it follows from the
							// line above but spares the solver the chain of frontier inequalities
							a0 := sanitize("$alloc") + "@0"
							c.declare(a0, SInt)
							c.assume(mk(SBool, fmt.Sprintf("(forall ((fr Int)) (! (=> (<= fr %s) (= (select %s fr) (select %s fr))) :pattern ((select %s fr))))", a0, nv.S, pre.S, nv.S)))
						}
						continue
					}
					if _, ok := c.heapSorts[m]; !ok {
						continue
					}
					if m == "$alloc" {
						old := c.heapGet(bst, m)
						nv := c.heapHavoc(bst, m)
						c.assumeG(bg, tGe(nv, old))
						continue
					}
					c.heapHavoc(bst, m)
				}
			}
			c.noNote--
			// phis are arbitrary
			for _, ins := range b.Instrs {
				phi, ok := ins.(*ssa.Phi)
				if !ok {
					break
				}
				// "x = x.Add(x, y)" with a math/big receiver: the method returns its receiver, so the variable holds the same
				// pointer on every iteration - it is the value flowing in from outside the loop, not an arbitrary one
				if ev, ok := fr.receiverInvariantPhi(phi, b, in); ok {
					fr.vals[phi] = ev
					continue
				}
				fr.vals[phi] = c.freshVal(bst, bg, phi.Type(), phi.Comment+"."+phi.Name())
			}
			for _, inv := range invs {
				t := fr.evalInvariant(inv, b, nil, bst)
				c.assumeG(bg, t)
			}
		} else {
			bst = c.joinStates(guards, sts)
			for _, ins := range b.Instrs {
				phi, ok := ins.(*ssa.Phi)
				if !ok {
					break
				}
				fr.vals[phi] = fr.mergePhi(phi, b, in)
			}
		}
		if fr.depth == 0 {
			c.curJoinPreds = nil
		}
		// instructions
		alive := true
		for _, ins := range b.Instrs {
			if _, ok := ins.(*ssa.Phi); ok {
				continue
			}
			if !alive {
				break
			}
			switch x := ins.(type) {
			case *ssa.If:
				cond := fr.term(x.Cond)
				fr.edge(b, b.Succs[0], tAnd(bg, cond), bst, ins, isBack)
				fr.edge(b, b.Succs[1], tAnd(bg, tNot(cond)), bst, ins, isBack)
			case *ssa.Jump:
				fr.edge(b, b.Succs[0], bg, bst, ins, isBack)
			case *ssa.Return:
				var vs []Val
				for _, r := range x.Results {
					vs = append(vs, fr.get(r))
				}
				rets = append(rets, retInfo{guard: bg, vals: vs, st: bst, block: b.Index})
			case *ssa.Panic:
				fr.panicSite(bg, bst, "explicit", x.Pos(), fr.describePanic(x))
			default:
				var ng *Term
				ng = fr.instr(ins, bst, bg)
				if ng != nil {
					bg = ng
					if bg.S == "false" {
						alive = false
					}
				}
			}
		}
		// record edges computed in fr.pendingEdges
		for _, pe := range fr.pending {
			inEdges[pe.to] = append(inEdges[pe.to], edgeIn{guard: pe.guard, st: pe.st, pred: b})
		}
		fr.pending = nil
		c.curWriteKeys = c.curWriteKeys[:len(c.curWriteKeys)-1]
	}
	if fr.depth == 0 {
		c.markBlock(-1)
	}
	return rets
}

type pendingEdge struct {
	to    *ssa.BasicBlock
	guard *Term
	st    *State
}

func (fr *Frame) edge(from, to *ssa.BasicBlock, g *Term, st *State, at ssa.Instruction, isBack func(a, b *ssa.BasicBlock) bool) {
	c := fr.c
	if g.S == "false" {
		return
	}
	if isBack(from, to) {
		ord := fr.loops[to]
		invs := fr.loopInvariants(ord)
		if fr.backEdges == nil {
			fr.backEdges = map[int]int{}
		}
		be := fr.backEdges[ord]
		fr.backEdges[ord] = be + 1
		for k, inv := range invs {
			goal := fr.evalInvariant(inv, to, from, st)
			c.oblige(&Obligation{Name: fmt.Sprintf("%s/inv-preserve#loop%d.%s@%d", c.unitName, ord, clauseLabel(inv, k), be), Func: c.unitName, Kind: "inv-preserve",
				Guard: g, Goal: goal, Pos: fmt.Sprintf("%s:%d", inv.File, inv.Line), Src: inv.Src, Tags: inv.Tags})
		}
		return
	}
	fr.pending = append(fr.pending, pendingEdge{to: to, guard: g, st: st.clone()})
}

func clauseLabel(cl *Clause, k int) string {
	if cl.Label != "" {
		return cl.Label
	}
	return fmt.Sprint(k)
}

func (fr *Frame) mergePhi(phi *ssa.Phi, b *ssa.BasicBlock, in []edgeIn) Val {
	c := fr.c
	// map pred block -> edge value
	type gv struct {
		g *Term
		v Val
	}
	var gvs []gv
	for _, e := range in {
		for i, p := range b.Preds {
			if p == e.pred {
				gvs = append(gvs, gv{e.guard, fr.get(phi.Edges[i])})
				break
			}
		}
	}
	if len(gvs) == 0 {
		return c.freshVal(&State{heap: map[string]*Term{}}, tTrue, phi.Type(), phi.Name())
	}
	if len(gvs) == 1 {
		return gvs[0].v
	}
	// function values: keep every alternative with the guard of the edge it arrives on
	isFn := false
	for _, x := range gvs {
		if x.v.Clo != nil || len(x.v.Alts) > 0 {
			isFn = true
		}
	}
	if isFn {
		var alts []AltVal
		unknown := false
		for _, x := range gvs {
			switch {
			case len(x.v.Alts) > 0:
				for _, a := range x.v.Alts {
					alts = append(alts, AltVal{G: tAnd(x.g, a.G), V: a.V})
				}
			case x.v.Clo != nil:
				alts = append(alts, AltVal{G: x.g, V: x.v})
			default:
				unknown = true
			}
		}
		if unknown {
			// a nil or unknown function value on some edge: a call through the phi is treated as a call of an unknown function
			c.warn("phi %s of function values in %s has an unknown alternative", phi.Name(), fr.fn.Name())
			return tv(c.fresh("fnval", SInt))
		}
		return Val{Alts: alts}
	}
	// location-valued phis are only supported when identical
	if gvs[0].v.Loc != nil || gvs[0].v.Tuple != nil || gvs[0].v.Clo != nil {
		c.warn("phi %s of non-term values in %s", phi.Name(), fr.fn.Name())
		return gvs[0].v
	}
	var out Val
	if fr.depth == 0 && len(gvs) > 2 {
		// many incoming edges: one guarded definition per edge, so that path-based slicing can drop the edges an
		// obligation cannot come from
		allSame := true
		for _, x := range gvs[1:] {
			if c.valTerm(x.v, "").S != c.valTerm(gvs[0].v, "").S {
				allSame = false
			}
		}
		if allSame {
			out = gvs[0].v
		} else {
			v := c.fresh(phi.Comment+"."+phi.Name(), c.sortOf(phi.Type()))
			for i, x := range gvs {
				pred := -1
				if i < len(in) && in[i].pred != nil {
					pred = in[i].pred.Index
				}
				c.defGuardedPred(v, x.g, c.valTerm(x.v, phi.Name()), pred)
			}
			out = tv(v)
		}
	} else {
		res := c.valTerm(gvs[len(gvs)-1].v, phi.Name())
		for i := len(gvs) - 2; i >= 0; i-- {
			res = tIte(gvs[i].g, c.valTerm(gvs[i].v, phi.Name()), res)
		}
		out = tv(c.define(phi.Comment+"."+phi.Name(), res))
	}
	// interface values whose dynamic type is known on every incoming edge: remember the alternatives
	if _, isIface := phi.Type().Underlying().(*types.Interface); isIface {
		var alts []DynAlt
		known := true
		for _, x := range gvs {
			switch {
			case len(x.v.DynAlts) > 0:
				for _, a := range x.v.DynAlts {
					alts = append(alts, DynAlt{G: tAnd(x.g, a.G), Dyn: a.Dyn, V: a.V})
				}
			case x.v.Dyn != nil && x.v.DynV != nil:
				alts = append(alts, DynAlt{G: x.g, Dyn: x.v.Dyn, V: *x.v.DynV})
			default:
				known = false
			}
		}
		if known && len(alts) > 1 && len(alts) <= 6 {
			out.DynAlts = alts
		}
	}
	return out
}

// loopMods returns the heap names written by the natural loop with header h (from the previous pass).
func (fr *Frame) loopMods(h *ssa.BasicBlock) map[string]bool {
	c := fr.c
	if c.passNo <= 1 {
		return nil // first pass: unknown -> havoc everything
	}
	body := naturalLoop(h)
	mods := map[string]bool{}
	for b := range body {
		key := fmt.Sprintf("%s:%d", fr.id, b.Index)
		for n := range c.blockWritesPrev[key] {
			mods[n] = true
		}
	}
	return mods
}

// receiverInvariantPhi recognises a loop-header phi of a *big.Int / *big.Float variable whose every back-edge value is
// the phi itself or the result of a receiver-returning math/big method called on the phi ("acc = acc.Add(acc, x)"):
// such a variable holds the pointer that flows in from outside the loop on every iteration.
func (fr *Frame) receiverInvariantPhi(phi *ssa.Phi, hb *ssa.BasicBlock, in []edgeIn) (Val, bool) {
	if !isPtrTo(phi.Type(), isBigInt) && !isPtrTo(phi.Type(), isBigFloat) {
		return Val{}, false
	}
	body := naturalLoop(hb)
	var entry ssa.Value
	for i, p := range hb.Preds {
		e := phi.Edges[i]
		if body[p] {
			if e == ssa.Value(phi) {
				continue
			}
			call, ok := e.(*ssa.Call)
			if !ok {
				return Val{}, false
			}
			callee := call.Common().StaticCallee()
			if callee == nil || len(call.Common().Args) == 0 || call.Common().Args[0] != ssa.Value(phi) {
				return Val{}, false
			}
			name := callee.String()
			if !strings.HasPrefix(name, "(*math/big.Int).") && !strings.HasPrefix(name, "(*math/big.Float).") {
				return Val{}, false
			}
			if !mutatingBigMethods[name[strings.LastIndex(name, ".")+1:]] {
				return Val{}, false
			}
		} else {
			if entry != nil && entry != e {
				return Val{}, false
			}
			entry = e
		}
	}
	if entry == nil {
		return Val{}, false
	}
	if _, ok := fr.vals[entry]; !ok {
		if _, isConst := entry.(*ssa.Const); !isConst {
			return Val{}, false
		}
	}
	return fr.get(entry), true
}

func naturalLoop(h *ssa.BasicBlock) map[*ssa.BasicBlock]bool {
	body := map[*ssa.BasicBlock]bool{h: true}
	var stack []*ssa.BasicBlock
	for _, p := range h.Preds {
		if h.Dominates(p) {
			if !body[p] {
				body[p] = true
				stack = append(stack, p)
			}
		}
	}
	for len(stack) > 0 {
		b := stack[len(stack)-1]
		stack = stack[:len(stack)-1]
		for _, p := range b.Preds {
			if !body[p] {
				body[p] = true
				stack = append(stack, p)
			}
		}
	}
	return body
}

func (fr *Frame) loopInvariants(ord int) []*Clause {
	if fr.contract == nil {
		if ct := fr.c.prog.ContractFor(fr.fn); ct != nil && ct.Loops[ord] != nil {
			return ct.Loops[ord].Invariants
		}
		return nil
	}
	if ls := fr.contract.Loops[ord]; ls != nil {
		return ls.Invariants
	}
	return nil
}

// collectNames maps source-level names to SSA values using DebugRef instructions and phi comments.
func (fr *Frame) collectNames() {
	fr.names = map[string][]nameBinding{}
	for _, b := range fr.fn.Blocks {
		for _, ins := range b.Instrs {
			switch x := ins.(type) {
			case *ssa.DebugRef:
				if id, ok := x.Expr.(interface{ String() string }); ok {
					_ = id
				}
				if obj := x.Object(); obj != nil {
					fr.names[obj.Name()] = append(fr.names[obj.Name()], nameBinding{v: x.X, block: b, addr: x.IsAddr, pos: x.Pos()})
				}
			}
		}
	}
}

// panicSite handles a point where the program panics under guard g.
func (fr *Frame) panicSite(g *Term, st *State, kind string, pos token.Pos, desc string) {
	c := fr.c
	if !c.nopanic || !c.panicKindChecked(kind) {
		return
	}
	n := c.panicCount[kind]
	c.panicCount[kind] = n + 1
	c.oblige(&Obligation{Name: fmt.Sprintf("%s/panic#%s.%d", c.unitName, kind, n), Func: c.unitName, Kind: "panic",
		Guard: g, Goal: tFalse, Pos: c.posOf(pos), Src: desc, Tags: map[string]bool{"C07": true}})
}

// mayPanicIf records that the program panics when cond holds under g; execution continues under g && !cond.
func (fr *Frame) mayPanicIf(g *Term, cond *Term, st *State, kind string, pos token.Pos, desc string) *Term {
	c := fr.c
	if cond.S == "false" {
		return g
	}
	if c.nopanic && c.panicKindChecked(kind) {
		n := c.panicCount[kind]
		c.panicCount[kind] = n + 1
		c.oblige(&Obligation{Name: fmt.Sprintf("%s/panic#%s.%d", c.unitName, kind, n), Func: c.unitName, Kind: "panic",
			Guard: g, Goal: tNot(cond), Pos: c.posOf(pos), Src: desc, Tags: map[string]bool{"C07": true}})
		return g
	}
	// partial correctness: continue only when no panic
	ng := c.define("g.np", tAnd(g, tNot(cond)))
	return ng
}

// panicKindChecked: under "nopanic k1 k2 ..." only the listed kinds are obligations.
func (c *Ctx) panicKindChecked(kind string) bool {
	if c.unitContract == nil || len(c.unitContract.NoPanicKinds) == 0 {
		return true
	}
	for _, k := range c.unitContract.NoPanicKinds {
		if k == kind {
			return true
		}
	}
	return false
}

func (fr *Frame) describePanic(p *ssa.Panic) string {
	return "panic(" + p.X.Name() + ")"
}
