package main

import (
	"encoding/json"
	"fmt"
	"go/types"
	"os"
	"os/exec"
	"path/filepath"
	"sort"
	"strings"
	"time"

	"golang.org/x/tools/go/ssa"
)

// Replay: a solver model of a failed obligation is turned into a Go test that builds the inputs named by the model,
// calls the REAL function and evaluates the violated clause dynamically. The test is injected with `go test -overlay`
// (nothing is written to /repo). Supported: ensures clauses and panic obligations of functions whose inputs can be
// constructed type-directedly (ints, *big.Int, pointers to structs of the same package, small slices).

type replayResult struct {
	Attempted  bool   `json:"attempted"`
	Confirmed  bool   `json:"confirmed"`
	Reason     string `json:"reason,omitempty"`
	PackageDir string `json:"package_dir,omitempty"`
	TestName   string `json:"test_name,omitempty"`
	TestSource string `json:"test_source,omitempty"`
	Output     string `json:"output,omitempty"`
}

// inNode describes one piece of a function input and the SMT term whose model value defines it.
type inNode struct {
	Name   string
	Type   types.Type
	Term   *Term
	Idx    int // position in the witness list, -1 if the node has no scalar term
	BigVal *inNode
	Fields []*inNode
	Len    *inNode
	Elems  []*inNode
}

type inputDesc struct {
	Params  []*inNode
	Witness []*Term
}

const maxInputNodes = 120

func (c *Ctx) describeInputs(fn *ssa.Function, params []Val, entry *State) *inputDesc {
	d := &inputDesc{}
	budget := maxInputNodes
	addW := func(t *Term) int {
		d.Witness = append(d.Witness, t)
		return len(d.Witness) - 1
	}
	var build func(name string, t types.Type, term *Term, depth int) *inNode
	build = func(name string, t types.Type, term *Term, depth int) *inNode {
		budget--
		n := &inNode{Name: name, Type: t, Term: term, Idx: -1}
		if budget <= 0 || term == nil {
			return n
		}
		switch u := t.Underlying().(type) {
		case *types.Basic:
			if term.Sort == SInt || term.Sort == SBool {
				n.Idx = addW(term)
			}
		case *types.Pointer:
			n.Idx = addW(term)
			el := u.Elem()
			if isBigInt(el) {
				n.BigVal = &inNode{Name: name + ".val", Type: types.Typ[types.Int], Term: tSelect(c.heapGet(entry, c.bigvalName()), term), Idx: -1}
				n.BigVal.Idx = addW(n.BigVal.Term)
				return n
			}
			if st, ok := el.Underlying().(*types.Struct); ok && !isOpaqueStruct(el) && depth < 3 {
				for i := 0; i < st.NumFields(); i++ {
					ft := tSelect(c.heapGet(entry, c.fieldArrayName(el, i)), term)
					n.Fields = append(n.Fields, build(st.Field(i).Name(), st.Field(i).Type(), ft, depth+1))
				}
			}
		case *types.Struct:
			if isOpaqueStruct(t) {
				return n
			}
			for i := 0; i < u.NumFields(); i++ {
				n.Fields = append(n.Fields, build(u.Field(i).Name(), u.Field(i).Type(), c.structField(t, term, i), depth))
			}
		case *types.Slice:
			n.Len = &inNode{Name: name + ".len", Type: types.Typ[types.Int], Term: mk(SInt, "(s.len "+term.S+")"), Idx: -1}
			n.Len.Idx = addW(n.Len.Term)
			if depth < 3 {
				arr := tSelect(c.heapGet(entry, c.elemNameT(u.Elem())), mk(SInt, "(s.arr "+term.S+")"))
				for k := 0; k < 3; k++ {
					et := tSelect(arr, mk(SInt, fmt.Sprintf("(sidx %s %d)", term.S, k)))
					n.Elems = append(n.Elems, build(fmt.Sprintf("%s[%d]", name, k), u.Elem(), et, depth+1))
				}
			}
		case *types.Array:
			if u.Len() <= 32 {
				if b, ok := u.Elem().Underlying().(*types.Basic); ok && b.Info()&types.IsInteger != 0 {
					for k := int64(0); k < u.Len() && k < 4; k++ {
						n.Elems = append(n.Elems, build(fmt.Sprintf("%s[%d]", name, k), u.Elem(), tSelect(term, intLit(k)), depth+1))
					}
				}
			}
		}
		return n
	}
	for i, p := range fn.Params {
		if i < len(params) && params[i].T != nil {
			d.Params = append(d.Params, build(p.Name(), p.Type(), params[i].T, 0))
		} else {
			d.Params = append(d.Params, &inNode{Name: p.Name(), Type: p.Type(), Idx: -1})
		}
	}
	return d
}

// ---------- Go source generation ----------

type goGen struct {
	pkg     *types.Package
	model   map[string]string
	stmts   []string
	imports map[string]string // path -> name
	objs    map[string]string // "ref|type" -> variable
	nvar    int
	unsup   string
}

func (g *goGen) qual(p *types.Package) string {
	if p == g.pkg {
		return ""
	}
	g.imports[p.Path()] = p.Name()
	return p.Name()
}

func (g *goGen) typeStr(t types.Type) string { return types.TypeString(t, g.qual) }

func (g *goGen) val(n *inNode) (string, bool) {
	if n == nil || n.Idx < 0 {
		return "", false
	}
	v, ok := g.model[fmt.Sprintf("#%d", n.Idx)]
	return v, ok
}

func smtInt(v string) (string, bool) {
	v = strings.TrimSpace(v)
	if strings.HasPrefix(v, "(- ") && strings.HasSuffix(v, ")") {
		inner := strings.TrimSpace(v[3 : len(v)-1])
		if _, ok := smtInt(inner); ok && !strings.HasPrefix(inner, "(") {
			return "-" + inner, true
		}
		return "", false
	}
	if v == "" {
		return "", false
	}
	for _, r := range v {
		if r < '0' || r > '9' {
			return "", false
		}
	}
	return v, true
}

func (g *goGen) newVar(prefix string) string {
	g.nvar++
	return fmt.Sprintf("%s%d", prefix, g.nvar)
}

func (g *goGen) accessible(t types.Type, field *types.Var) bool {
	return field.Exported() || field.Pkg() == g.pkg
}

// build returns a Go expression for the input described by n under the model.
func (g *goGen) build(n *inNode) string {
	t := n.Type
	switch u := t.Underlying().(type) {
	case *types.Basic:
		v, ok := g.val(n)
		switch {
		case u.Info()&types.IsBoolean != 0:
			if ok && v == "true" {
				return "true"
			}
			return "false"
		case u.Info()&types.IsInteger != 0:
			if iv, ok2 := smtInt(v); ok && ok2 {
				return fmt.Sprintf("%s(%s)", g.typeStr(t), iv)
			}
			return fmt.Sprintf("%s(0)", g.typeStr(t))
		case u.Info()&types.IsString != 0:
			return `""`
		case u.Info()&types.IsFloat != 0:
			return "0"
		}
		return "0"
	case *types.Pointer:
		if named, ok := u.Elem().(*types.Named); ok && named.Obj().Pkg() != nil && named.Obj().Pkg().Path() == "sync" {
			// locks are not modelled: always give the real code a usable one
			return "new(" + g.typeStr(u.Elem()) + ")"
		}
		ref, ok := g.val(n)
		if !ok || ref == "0" {
			return "nil"
		}
		key := ref + "|" + t.String()
		if v, ok := g.objs[key]; ok {
			return v
		}
		el := u.Elem()
		if isBigInt(el) {
			bv, _ := g.val(n.BigVal)
			iv, ok := smtInt(bv)
			if !ok {
				iv = "0"
			}
			v := g.newVar("b")
			g.stmts = append(g.stmts, fmt.Sprintf("%s := bi(%q)", v, iv))
			g.objs[key] = v
			return v
		}
		if named, ok := el.(*types.Named); ok && named.Obj().Pkg() != nil && named.Obj().Pkg().Path() == "sync" {
			return "new(" + g.typeStr(el) + ")"
		}
		if st, ok := el.Underlying().(*types.Struct); ok && !isOpaqueStruct(el) {
			if named, ok := el.(*types.Named); ok && !named.Obj().Exported() && named.Obj().Pkg() != g.pkg {
				return "nil"
			}
			v := g.newVar("o")
			g.stmts = append(g.stmts, fmt.Sprintf("%s := new(%s)", v, g.typeStr(el)))
			g.objs[key] = v
			for i, fnode := range n.Fields {
				f := st.Field(i)
				if !g.accessible(el, f) || f.Name() == "_" {
					continue
				}
				if _, isFunc := f.Type().Underlying().(*types.Signature); isFunc {
					g.imports["reflect"] = "reflect"
					ft := g.typeStr(f.Type())
					g.stmts = append(g.stmts, fmt.Sprintf("%s.%s = reflect.MakeFunc(reflect.TypeOf((%s)(nil)), func(a []reflect.Value) []reflect.Value { return zeroResults(reflect.TypeOf((%s)(nil))) }).Interface().(%s)", v, f.Name(), ft, ft, ft))
					continue
				}
				if isOpaqueStruct(f.Type()) {
					continue
				}
				switch f.Type().Underlying().(type) {
				case *types.Interface, *types.Chan:
					continue
				case *types.Map:
					g.stmts = append(g.stmts, fmt.Sprintf("%s.%s = %s{}", v, f.Name(), g.typeStr(f.Type())))
					continue
				}
				e := g.build(fnode)
				if e != "" && e != "nil" {
					g.stmts = append(g.stmts, fmt.Sprintf("%s.%s = %s", v, f.Name(), e))
				}
			}
			return v
		}
		// pointer to scalar
		return "new(" + g.typeStr(el) + ")"
	case *types.Struct:
		if isOpaqueStruct(t) {
			return g.typeStr(t) + "{}"
		}
		v := g.newVar("s")
		g.stmts = append(g.stmts, fmt.Sprintf("var %s %s", v, g.typeStr(t)))
		for i, fnode := range n.Fields {
			f := u.Field(i)
			if !g.accessible(t, f) || f.Name() == "_" {
				continue
			}
			switch f.Type().Underlying().(type) {
			case *types.Interface, *types.Chan, *types.Signature, *types.Map:
				continue
			}
			if isOpaqueStruct(f.Type()) {
				continue
			}
			e := g.build(fnode)
			if e != "" && e != "nil" {
				g.stmts = append(g.stmts, fmt.Sprintf("%s.%s = %s", v, f.Name(), e))
			}
		}
		return v
	case *types.Slice:
		lv, ok := g.val(n.Len)
		ln, ok2 := smtInt(lv)
		if !ok || !ok2 || ln == "0" || strings.HasPrefix(ln, "-") {
			return "nil"
		}
		var cnt int
		fmt.Sscanf(ln, "%d", &cnt)
		if cnt > len(n.Elems) {
			g.unsup = fmt.Sprintf("slice %s has %d elements in the model (only %d are constructed)", n.Name, cnt, len(n.Elems))
			cnt = len(n.Elems)
		}
		var es []string
		for k := 0; k < cnt; k++ {
			es = append(es, g.build(n.Elems[k]))
		}
		return fmt.Sprintf("%s{%s}", g.typeStr(t), strings.Join(es, ", "))
	case *types.Array:
		v := g.newVar("a")
		g.stmts = append(g.stmts, fmt.Sprintf("var %s %s", v, g.typeStr(t)))
		for k, en := range n.Elems {
			g.stmts = append(g.stmts, fmt.Sprintf("%s[%d] = %s", v, k, g.build(en)))
		}
		return v
	case *types.Map:
		return g.typeStr(t) + "{}"
	case *types.Interface:
		return "nil"
	}
	return "nil"
}

// ---------- clause compiler (contract expression -> Go) ----------

type cexpr struct {
	code string
	kind string // big, bool, go
	typ  types.Type
}

type clauseCompiler struct {
	g      *goGen
	prog   *Program
	pkg    *types.Package
	vars   map[string]cexpr
	lets   map[string]Expr
	olds   []string // statements evaluated before the call
	inOld  bool
	nold   int
	specs  map[string]bool
	specFn []string
	err    string
}

func (cc *clauseCompiler) fail(format string, a ...interface{}) cexpr {
	if cc.err == "" {
		cc.err = fmt.Sprintf(format, a...)
	}
	return cexpr{code: "false", kind: "bool"}
}

func (cc *clauseCompiler) toBig(e cexpr) cexpr {
	switch e.kind {
	case "big":
		return e
	case "go":
		if b, ok := e.typ.Underlying().(*types.Basic); ok && b.Info()&types.IsInteger != 0 {
			if b.Info()&types.IsUnsigned != 0 {
				return cexpr{code: fmt.Sprintf("new(big.Int).SetUint64(uint64(%s))", e.code), kind: "big"}
			}
			return cexpr{code: fmt.Sprintf("big.NewInt(int64(%s))", e.code), kind: "big"}
		}
	}
	return cc.fail("cannot convert %s to an integer", e.code)
}

func (cc *clauseCompiler) compile(x Expr) cexpr {
	switch n := x.(type) {
	case *EInt:
		return cexpr{code: fmt.Sprintf("bi(%q)", n.V), kind: "big"}
	case *EBool:
		return cexpr{code: fmt.Sprint(n.V), kind: "bool"}
	case *ENil:
		return cexpr{code: "nil", kind: "go"}
	case *EIdent:
		if v, ok := cc.vars[n.Name]; ok {
			return v
		}
		if le, ok := cc.lets[n.Name]; ok {
			return cc.compile(le)
		}
		if obj := cc.pkg.Scope().Lookup(n.Name); obj != nil {
			switch o := obj.(type) {
			case *types.Const:
				return cexpr{code: n.Name, kind: "go", typ: o.Type()}
			case *types.Var:
				return cexpr{code: n.Name, kind: "go", typ: o.Type()}
			}
		}
		return cc.fail("unknown identifier %s", n.Name)
	case *EOld:
		if cc.inOld {
			return cc.compile(n.X)
		}
		cc.inOld = true
		inner := cc.compile(n.X)
		cc.inOld = false
		cc.nold++
		v := fmt.Sprintf("old%d", cc.nold)
		cc.olds = append(cc.olds, fmt.Sprintf("%s := %s", v, inner.code))
		return cexpr{code: v, kind: inner.kind, typ: inner.typ}
	case *EUn:
		v := cc.compile(n.X)
		if n.Op == "!" {
			return cexpr{code: "!(" + v.code + ")", kind: "bool"}
		}
		b := cc.toBig(v)
		return cexpr{code: fmt.Sprintf("new(big.Int).Neg(%s)", b.code), kind: "big"}
	case *ECond:
		c := cc.compile(n.C)
		a, b := cc.compile(n.A), cc.compile(n.B)
		if a.kind == "bool" {
			return cexpr{code: fmt.Sprintf("func() bool { if %s { return %s }; return %s }()", c.code, a.code, b.code), kind: "bool"}
		}
		if a.kind == "go" && b.kind == "go" && a.typ != nil {
			if bb, ok := a.typ.Underlying().(*types.Basic); !ok || bb.Info()&types.IsInteger == 0 {
				return cexpr{code: fmt.Sprintf("func() %s { if %s { return %s }; return %s }()", cc.g.typeStr(a.typ), c.code, a.code, b.code), kind: "go", typ: a.typ}
			}
		}
		ab, bb := cc.toBig(a), cc.toBig(b)
		return cexpr{code: fmt.Sprintf("func() *big.Int { if %s { return %s }; return %s }()", c.code, ab.code, bb.code), kind: "big"}
	case *EBin:
		return cc.compileBin(n)
	case *ESel:
		return cc.compileSel(n)
	case *EIdx:
		xv := cc.compile(n.X)
		iv := cc.compile(n.I)
		if xv.kind != "go" || xv.typ == nil {
			return cc.fail("cannot index %s", xv.code)
		}
		switch u := xv.typ.Underlying().(type) {
		case *types.Slice:
			return cexpr{code: fmt.Sprintf("%s[int(%s.Int64())]", xv.code, cc.toBig(iv).code), kind: "go", typ: u.Elem()}
		case *types.Array:
			return cexpr{code: fmt.Sprintf("%s[int(%s.Int64())]", xv.code, cc.toBig(iv).code), kind: "go", typ: u.Elem()}
		case *types.Map:
			if iv.kind == "go" {
				return cexpr{code: fmt.Sprintf("%s[%s]", xv.code, iv.code), kind: "go", typ: u.Elem()}
			}
		}
		return cc.fail("unsupported index expression")
	case *ECall:
		return cc.compileCall(n)
	case *EQuant:
		return cc.fail("quantifiers are not replayable")
	}
	return cc.fail("unsupported expression %T", x)
}

func (cc *clauseCompiler) compileSel(n *ESel) cexpr {
	if id, ok := n.X.(*EIdent); ok {
		if _, isVar := cc.vars[id.Name]; !isVar {
			if _, isLet := cc.lets[id.Name]; !isLet {
				for _, imp := range cc.pkg.Imports() {
					if imp.Name() == id.Name {
						if obj := imp.Scope().Lookup(n.Name); obj != nil {
							cc.g.imports[imp.Path()] = imp.Name()
							return cexpr{code: id.Name + "." + n.Name, kind: "go", typ: obj.Type()}
						}
					}
				}
			}
		}
	}
	x := cc.compile(n.X)
	if x.kind != "go" || x.typ == nil {
		return cc.fail("selector on non-Go value %s", x.code)
	}
	if n.Name == "val" && isPtrTo(x.typ, isBigInt) {
		return cexpr{code: fmt.Sprintf("new(big.Int).Set(%s)", x.code), kind: "big"}
	}
	_, ft, ok := fieldPath(x.typ, n.Name)
	if !ok {
		return cc.fail("no field %s", n.Name)
	}
	return cexpr{code: x.code + "." + n.Name, kind: "go", typ: ft}
}

func (cc *clauseCompiler) compileBin(n *EBin) cexpr {
	switch n.Op {
	case "==>":
		return cexpr{code: fmt.Sprintf("(!(%s) || (%s))", cc.compile(n.L).code, cc.compile(n.R).code), kind: "bool"}
	case "<==>":
		return cexpr{code: fmt.Sprintf("((%s) == (%s))", cc.compile(n.L).code, cc.compile(n.R).code), kind: "bool"}
	case "&&", "||":
		return cexpr{code: fmt.Sprintf("((%s) %s (%s))", cc.compile(n.L).code, n.Op, cc.compile(n.R).code), kind: "bool"}
	case "in":
		k, m := cc.compile(n.L), cc.compile(n.R)
		if m.kind == "go" && k.kind == "go" {
			return cexpr{code: fmt.Sprintf("func() bool { _, ok := %s[%s]; return ok }()", m.code, k.code), kind: "bool"}
		}
		return cc.fail("unsupported 'in'")
	}
	a, b := cc.compile(n.L), cc.compile(n.R)
	switch n.Op {
	case "==", "!=":
		// nil / pointer / bool comparisons stay in Go; integers go through big
		isNil := func(e cexpr) bool { return e.code == "nil" }
		goCmp := false
		if isNil(a) || isNil(b) || a.kind == "bool" || b.kind == "bool" {
			goCmp = true
		} else if a.kind == "go" && b.kind == "go" {
			if bb, ok := a.typ.Underlying().(*types.Basic); !ok || bb.Info()&types.IsInteger == 0 {
				goCmp = true
			}
		}
		if goCmp {
			return cexpr{code: fmt.Sprintf("(%s %s %s)", a.code, n.Op, b.code), kind: "bool"}
		}
		return cexpr{code: fmt.Sprintf("(%s.Cmp(%s) %s 0)", cc.toBig(a).code, cc.toBig(b).code, n.Op), kind: "bool"}
	case "<", "<=", ">", ">=":
		return cexpr{code: fmt.Sprintf("(%s.Cmp(%s) %s 0)", cc.toBig(a).code, cc.toBig(b).code, n.Op), kind: "bool"}
	case "+", "-", "*":
		m := map[string]string{"+": "Add", "-": "Sub", "*": "Mul"}[n.Op]
		return cexpr{code: fmt.Sprintf("new(big.Int).%s(%s, %s)", m, cc.toBig(a).code, cc.toBig(b).code), kind: "big"}
	case "/":
		return cexpr{code: fmt.Sprintf("new(big.Int).Quo(%s, %s)", cc.toBig(a).code, cc.toBig(b).code), kind: "big"}
	case "%":
		return cexpr{code: fmt.Sprintf("new(big.Int).Rem(%s, %s)", cc.toBig(a).code, cc.toBig(b).code), kind: "big"}
	}
	return cc.fail("unsupported operator %s", n.Op)
}

func (cc *clauseCompiler) compileCall(n *ECall) cexpr {
	arg := func(i int) cexpr { return cc.compile(n.Args[i]) }
	two := func(m string) cexpr {
		return cexpr{code: fmt.Sprintf("new(big.Int).%s(%s, %s)", m, cc.toBig(arg(0)).code, cc.toBig(arg(1)).code), kind: "big"}
	}
	switch n.Fn {
	case "div":
		return two("Div")
	case "mod":
		return two("Mod")
	case "quo":
		return two("Quo")
	case "rem":
		return two("Rem")
	case "abs":
		return cexpr{code: fmt.Sprintf("new(big.Int).Abs(%s)", cc.toBig(arg(0)).code), kind: "big"}
	case "min", "max":
		op := "<"
		if n.Fn == "max" {
			op = ">"
		}
		a, b := cc.toBig(arg(0)), cc.toBig(arg(1))
		return cexpr{code: fmt.Sprintf("func() *big.Int { x, y := %s, %s; if x.Cmp(y) %s 0 { return x }; return y }()", a.code, b.code, op), kind: "big"}
	case "len":
		a := arg(0)
		return cexpr{code: fmt.Sprintf("big.NewInt(int64(len(%s)))", a.code), kind: "big"}
	case "fresh", "allocated":
		return cexpr{code: "true", kind: "bool"}
	case "isqrt":
		return cexpr{code: fmt.Sprintf("new(big.Int).Sqrt(%s)", cc.toBig(arg(0)).code), kind: "big"}
	}
	if sf, ok := cc.prog.Specs[n.Fn]; ok && sf.Body != nil {
		name := "spec_" + sf.Name
		if !cc.specs[sf.Name] {
			cc.specs[sf.Name] = true
			// compile the spec function to a Go function
			sub := &clauseCompiler{g: cc.g, prog: cc.prog, pkg: cc.prog.typesPkg(sf.Pkg), vars: map[string]cexpr{}, lets: map[string]Expr{}, specs: cc.specs}
			if sub.pkg == nil {
				sub.pkg = cc.pkg
			}
			e := &Env{c: NewCtx(cc.prog, "replay"), vars: map[string]SVal{}, pkg: sub.pkg, g: tTrue}
			var ps []string
			for _, p := range sf.Params {
				_, ty := e.specSort(p.Type)
				if ty == nil {
					if p.Type != "int" {
						return cc.fail("spec %s has a parameter of spec-only type %s", sf.Name, p.Type)
					}
					ps = append(ps, p.Name+" *big.Int")
					sub.vars[p.Name] = cexpr{code: p.Name, kind: "big"}
				} else {
					ps = append(ps, p.Name+" "+cc.g.typeStr(ty))
					sub.vars[p.Name] = cexpr{code: p.Name, kind: "go", typ: ty}
				}
			}
			ret := "*big.Int"
			var body cexpr
			switch sf.Ret {
			case "bool":
				ret = "bool"
				body = sub.compile(sf.Body)
			case "int":
				body = sub.toBig(sub.compile(sf.Body))
			default:
				return cc.fail("spec %s returns %s (not replayable)", sf.Name, sf.Ret)
			}
			if sub.err != "" {
				return cc.fail("spec %s: %s", sf.Name, sub.err)
			}
			cc.specFn = append(cc.specFn, sub.specFn...)
			cc.specFn = append(cc.specFn, fmt.Sprintf("func %s(%s) %s { return %s }", name, strings.Join(ps, ", "), ret, body.code))
		}
		var as []string
		for i, p := range sf.Params {
			a := arg(i)
			if p.Type == "int" {
				a = cc.toBig(a)
			}
			as = append(as, a.code)
		}
		kind := "big"
		if sf.Ret == "bool" {
			kind = "bool"
		}
		return cexpr{code: fmt.Sprintf("%s(%s)", name, strings.Join(as, ", ")), kind: kind}
	}
	return cc.fail("function %s is not replayable", n.Fn)
}

// ---------- driver ----------

func tryReplay(prog *Program, o *Obligation, u *Unit) replayResult {
	res := replayResult{}
	if u == nil || u.Fn == nil || u.Contract == nil || u.Inputs == nil {
		res.Reason = "no replay harness for this unit"
		return res
	}
	if o.Kind != "ensures" && o.Kind != "panic" {
		res.Reason = "no replay harness for obligations of kind " + o.Kind
		return res
	}
	if len(o.Model) == 0 {
		res.Reason = "solver returned no model values"
		return res
	}
	fn := u.Fn
	ct := u.Contract
	g := &goGen{pkg: fn.Pkg.Pkg, model: o.Model, imports: map[string]string{"math/big": "big", "testing": "testing"}, objs: map[string]string{}}
	var args []string
	for _, p := range u.Inputs.Params {
		args = append(args, g.build(p))
	}
	cc := &clauseCompiler{g: g, prog: prog, pkg: fn.Pkg.Pkg, vars: map[string]cexpr{}, lets: letMap(ct), specs: map[string]bool{}}
	sig := fn.Signature
	pi := 0
	var recvVar string
	var callArgs []string
	var decls []string
	if sig.Recv() != nil {
		name := sig.Recv().Name()
		if name == "" || name == "_" {
			name = "recv"
		}
		recvVar = "in_" + name
		decls = append(decls, fmt.Sprintf("%s := %s", recvVar, args[pi]))
		cc.vars[name] = cexpr{code: recvVar, kind: "go", typ: sig.Recv().Type()}
		pi++
	}
	for k := 0; k < sig.Params().Len(); k++ {
		p := sig.Params().At(k)
		name := p.Name()
		if name == "" || name == "_" {
			name = fmt.Sprintf("arg%d", k)
		}
		v := "in_" + name
		var ty types.Type = p.Type()
		decls = append(decls, fmt.Sprintf("var %s %s = %s", v, g.typeStr(ty), args[pi]))
		cc.vars[name] = cexpr{code: v, kind: "go", typ: ty}
		callArgs = append(callArgs, v)
		pi++
	}
	// results
	var resVars []string
	for k := 0; k < sig.Results().Len(); k++ {
		rv := fmt.Sprintf("res%d", k)
		resVars = append(resVars, rv)
		r := sig.Results().At(k)
		ce := cexpr{code: rv, kind: "go", typ: r.Type()}
		if b, ok := r.Type().Underlying().(*types.Basic); ok && b.Info()&types.IsBoolean != 0 {
			ce.kind = "bool"
		}
		if n := r.Name(); n != "" && n != "_" {
			cc.vars[n] = ce
		}
		cc.vars[fmt.Sprintf("result%d", k)] = ce
		if k == 0 {
			cc.vars["result"] = ce
		}
	}
	// booleans among parameters
	for name, v := range cc.vars {
		if v.typ != nil {
			if b, ok := v.typ.Underlying().(*types.Basic); ok && b.Info()&types.IsBoolean != 0 {
				v.kind = "bool"
				cc.vars[name] = v
			}
		}
	}
	// preconditions (evaluated before the call) and the violated clause
	var pre []string
	for _, r := range ct.Requires {
		e := cc.compile(r.E)
		if cc.err != "" {
			// a precondition that cannot be evaluated dynamically is skipped (the model satisfied it symbolically)
			cc.err = ""
			continue
		}
		pre = append(pre, e.code)
	}
	preOlds := cc.olds
	cc.olds = nil
	check := ""
	if o.Kind == "ensures" {
		var cl *Clause
		for k, e := range ct.Ensures {
			if o.Name == fmt.Sprintf("%s/ensures#%s", o.Func, clauseLabel(e, k)) {
				cl = e
			}
		}
		if cl == nil {
			res.Reason = "clause not found"
			return res
		}
		e := cc.compile(cl.E)
		if cc.err != "" {
			res.Reason = "clause is not replayable: " + cc.err
			return res
		}
		check = e.code
	}
	if g.unsup != "" {
		res.Reason = g.unsup
		return res
	}
	call := ""
	fname := fn.Name()
	if recvVar != "" {
		call = fmt.Sprintf("%s.%s(%s)", recvVar, fname, strings.Join(callArgs, ", "))
	} else {
		call = fmt.Sprintf("%s(%s)", fname, strings.Join(callArgs, ", "))
	}
	if len(resVars) > 0 {
		call = strings.Join(resVars, ", ") + " := " + call
	}
	var b strings.Builder
	testName := "TestGovcReplay"
	fmt.Fprintf(&b, "package %s\n\nimport (\n", fn.Pkg.Pkg.Name())
	var imps []string
	for p := range g.imports {
		imps = append(imps, p)
	}
	sort.Strings(imps)
	for _, p := range imps {
		fmt.Fprintf(&b, "\t%s %q\n", g.imports[p], p)
	}
	b.WriteString(")\n\n")
	b.WriteString("func bi(s string) *big.Int { v, _ := new(big.Int).SetString(s, 10); return v }\n\n")
	if _, ok := g.imports["reflect"]; ok {
		b.WriteString("func zeroResults(t reflect.Type) []reflect.Value {\n\tvar out []reflect.Value\n\tfor i := 0; i < t.NumOut(); i++ {\n\t\tout = append(out, reflect.Zero(t.Out(i)))\n\t}\n\treturn out\n}\n\n")
	}
	for _, sfn := range cc.specFn {
		b.WriteString(sfn + "\n\n")
	}
	fmt.Fprintf(&b, "// replay of obligation %s\n// clause: %s\nfunc %s(t *testing.T) {\n", o.Name, o.Src, testName)
	for _, s := range g.stmts {
		b.WriteString("\t" + s + "\n")
	}
	for _, s := range decls {
		b.WriteString("\t" + s + "\n")
	}
	for _, s := range preOlds {
		b.WriteString("\t" + s + "\n")
	}
	for _, p := range pre {
		fmt.Fprintf(&b, "\tif !(%s) {\n\t\tt.Skip(\"GOVC-REPLAY-PRECONDITION-NOT-MET\")\n\t}\n", p)
	}
	for _, s := range cc.olds {
		b.WriteString("\t" + s + "\n")
	}
	if o.Kind == "panic" {
		b.WriteString("\tdefer func() {\n\t\tif r := recover(); r != nil {\n\t\t\tt.Fatalf(\"GOVC-REPLAY-VIOLATION: panic: %v\", r)\n\t\t}\n\t}()\n")
	}
	b.WriteString("\t" + call + "\n")
	for _, rv := range resVars {
		b.WriteString("\t_ = " + rv + "\n")
	}
	if check != "" {
		fmt.Fprintf(&b, "\tif !(%s) {\n\t\tt.Fatalf(\"GOVC-REPLAY-VIOLATION: postcondition violated\")\n\t}\n", check)
	}
	b.WriteString("}\n")
	res.Attempted = true
	res.TestSource = b.String()
	res.TestName = testName
	res.PackageDir = strings.TrimPrefix(fn.Pkg.Pkg.Path(), modulePath+"/")
	out, failed := runReplayTest(res.PackageDir, res.TestSource, testName)
	res.Output = out
	if failed && strings.Contains(out, "GOVC-REPLAY-VIOLATION") {
		res.Confirmed = true
	} else if strings.Contains(out, "GOVC-REPLAY-PRECONDITION-NOT-MET") {
		res.Reason = "the model's inputs do not satisfy the precondition on the real code (abstraction artefact)"
	} else if failed {
		res.Reason = "replay test did not run to a verdict (build error or unexpected panic)"
	} else {
		res.Reason = "the real code satisfies the clause on the model's inputs (abstraction artefact or inputs not fully constructible)"
	}
	return res
}

// runReplayTest injects the test into the package through an overlay and runs it. failed = test did not pass.
func runReplayTest(pkgDir, src, testName string) (string, bool) {
	tmp, err := os.MkdirTemp("", "govc-replay-")
	if err != nil {
		return err.Error(), false
	}
	defer os.RemoveAll(tmp)
	tf := filepath.Join(tmp, "zz_govc_replay_test.go")
	if err := os.WriteFile(tf, []byte(src), 0o644); err != nil {
		return err.Error(), false
	}
	ov := map[string]map[string]string{"Replace": {filepath.Join(repoDir(), pkgDir, "zz_govc_replay_test.go"): tf}}
	ob, _ := json.Marshal(ov)
	of := filepath.Join(tmp, "overlay.json")
	os.WriteFile(of, ob, 0o644)
	cmd := exec.Command("go", "test", "-overlay", of, "-vet=off", "-timeout", "60s", "-count=1", "-run", "^"+testName+"$", "./"+pkgDir+"/")
	cmd.Dir = repoDir()
	cmd.Env = append(os.Environ(), "GOFLAGS=-mod=mod", "GOPROXY=off", "GOSUMDB=off", "GOTOOLCHAIN=local")
	done := make(chan struct{})
	var out []byte
	go func() { out, err = cmd.CombinedOutput(); close(done) }()
	select {
	case <-done:
	case <-time.After(10 * time.Minute):
		cmd.Process.Kill()
		return "replay timed out", false
	}
	s := string(out)
	if len(s) > 6000 {
		s = s[:3000] + "\n...\n" + s[len(s)-3000:]
	}
	return s, err != nil
}
