package main

type replayResult struct {
	Attempted  bool   `json:"attempted"`
	Confirmed  bool   `json:"confirmed"`
	Reason     string `json:"reason,omitempty"`
	PackageDir string `json:"package_dir,omitempty"`
	TestName   string `json:"test_name,omitempty"`
	TestSource string `json:"test_source,omitempty"`
	Output     string `json:"output,omitempty"`
}

func tryReplay(prog *Program, o *Obligation, u *Unit) replayResult {
	return replayResult{Reason: "no replay harness for this kind of obligation yet"}
}

func runReplayTest(pkgDir, src, testName string) (string, bool) { return "", false }
