package main

import (
	"context"
	"os"
	"path/filepath"
)

// extractModel re-runs a satisfiable query with the unit's witness terms (function inputs) to obtain their values.
func extractModel(o *Obligation, scratch string, cap int) {
	q, _ := o.Unit.BuildQuery(o, true)
	file := filepath.Join(scratch, sanitize(o.Name)+".model.smt2")
	if len(file) > 200 {
		file = filepath.Join(scratch, "m"+sanitize(o.Name)[:40]+".smt2")
	}
	if err := os.WriteFile(file, []byte(q), 0o644); err != nil {
		return
	}
	defer os.Remove(file)
	order := []solverSpec{}
	for _, s := range solvers {
		if s.name == o.Solver {
			order = append(order, s)
		}
	}
	for _, s := range solvers {
		if s.name != o.Solver {
			order = append(order, s)
		}
	}
	for _, sp := range order {
		r := runSolver(context.Background(), sp, file, cap)
		if r.status == "sat" {
			o.Model = parseModel(r.out)
			o.Output = r.out
			return
		}
	}
}
