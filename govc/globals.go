package main

import (
	"go/constant"
	"go/types"
	"math/big"
	"strings"
	"sync"

	"golang.org/x/tools/go/ssa"
)

// Package-level variables that are only written by their package's init function are treated as constants
// (assumption A-GLOBALCONST, re-checked on every run by scanning all loaded functions for stores).
// For those, facts about the initial value are derived from the init function:
//   errors.New / fmt.Errorf            -> non-nil
//   big.NewInt / Exp / Mul / ... chain -> non-nil *big.Int with that value, provided the variable is never
//                                        used as the receiver of a mutating big.Int method anywhere.

type globalInfo struct {
	constant bool     // no store outside init
	nonNil   bool     // initial value known non-nil
	bigVal   *big.Int // value of a *big.Int constant (nil if unknown)
	intVal   *big.Int // value of an integer-typed variable initialised with a constant
	boolVal  *bool
}

type globalTable struct {
	once sync.Once
	info map[*ssa.Global]*globalInfo
}

var mutatingBigMethods = map[string]bool{"Add": true, "Sub": true, "Mul": true, "Quo": true, "Rem": true, "Div": true, "Mod": true, "Neg": true, "Abs": true,
	"Set": true, "SetInt64": true, "SetUint64": true, "Sqrt": true, "SetBytes": true, "SetString": true, "Exp": true, "Lsh": true, "Rsh": true, "SetBit": true,
	"And": true, "Or": true, "Xor": true, "Not": true, "DivMod": true, "QuoRem": true, "GCD": true, "ModInverse": true, "SetBits": true, "Rand": true, "Binomial": true, "MulRange": true}

func (p *Program) globals() map[*ssa.Global]*globalInfo {
	p.gtab.once.Do(func() {
		info := map[*ssa.Global]*globalInfo{}
		get := func(g *ssa.Global) *globalInfo {
			gi := info[g]
			if gi == nil {
				gi = &globalInfo{constant: true}
				info[g] = gi
			}
			return gi
		}
		mutated := map[*ssa.Global]bool{}
		for _, fn := range p.Funcs {
			isInit := fn.Name() == "init" && fn.Signature.Recv() == nil
			for _, b := range fn.Blocks {
				for _, ins := range b.Instrs {
					switch x := ins.(type) {
					case *ssa.Store:
						if g, ok := x.Addr.(*ssa.Global); ok {
							if !isInit || g.Pkg != fn.Pkg {
								get(g).constant = false
							}
						}
					case *ssa.Call:
						// receiver of a mutating big.Int method is a load of a global
						if callee := x.Common().StaticCallee(); callee != nil && strings.HasPrefix(callee.String(), "(*math/big.Int).") && len(x.Common().Args) > 0 {
							m := strings.TrimPrefix(callee.String(), "(*math/big.Int).")
							if mutatingBigMethods[m] {
								if u, ok := x.Common().Args[0].(*ssa.UnOp); ok {
									if g, ok := u.X.(*ssa.Global); ok && !isInit {
										mutated[g] = true
									}
								}
							}
						}
					}
					// address of a global escaping (passed to a call, stored) makes it non-constant
					if !isInit {
						for _, op := range ins.Operands(nil) {
							if op == nil || *op == nil {
								continue
							}
							if g, ok := (*op).(*ssa.Global); ok {
								switch y := ins.(type) {
								case *ssa.UnOp:
									_ = y // plain load
								case *ssa.Store:
									if y.Val == ssa.Value(g) {
										get(g).constant = false
									}
								case *ssa.DebugRef:
								default:
									get(g).constant = false
								}
							}
						}
					}
				}
			}
		}
		// initial values from init functions
		for _, sp := range p.SSAPkgs {
			initFn := sp.Func("init")
			if initFn == nil {
				continue
			}
			for _, b := range initFn.Blocks {
				for _, ins := range b.Instrs {
					st, ok := ins.(*ssa.Store)
					if !ok {
						continue
					}
					g, ok := st.Addr.(*ssa.Global)
					if !ok {
						continue
					}
					gi := get(g)
					if v, ok := evalInitBig(st.Val); ok && !mutated[g] {
						gi.nonNil = true
						gi.bigVal = v
					} else if isNonNilInit(st.Val) {
						gi.nonNil = true
					}
					if k, ok := st.Val.(*ssa.Const); ok && k.Value != nil {
						if k.Value.Kind() == constant.Int {
							if n, ok := new(big.Int).SetString(k.Value.ExactString(), 10); ok {
								gi.intVal = n
							}
						} else if k.Value.Kind() == constant.Bool {
							bv := constant.BoolVal(k.Value)
							gi.boolVal = &bv
						}
					}
				}
			}
		}
		p.gtab.info = info
	})
	return p.gtab.info
}

func isNonNilInit(v ssa.Value) bool {
	switch x := v.(type) {
	case *ssa.Call:
		if callee := x.Common().StaticCallee(); callee != nil {
			switch callee.String() {
			case "errors.New", "fmt.Errorf", "math/big.NewInt", "math/big.NewFloat", "math/big.NewRat":
				return true
			}
			if strings.HasPrefix(callee.String(), "(*math/big.") {
				return true
			}
		}
	case *ssa.Alloc:
		return true
	case *ssa.MakeInterface:
		return true
	case *ssa.MakeMap, *ssa.MakeSlice:
		return true
	}
	return false
}

// evalInitBig evaluates init-time *big.Int expressions built from constants.
func evalInitBig(v ssa.Value) (*big.Int, bool) {
	switch x := v.(type) {
	case *ssa.UnOp:
		// load of another package-level variable initialised earlier (possibly in another package's init)
		if g, ok := x.X.(*ssa.Global); ok && g.Pkg != nil {
			if initFn := g.Pkg.Func("init"); initFn != nil {
				for _, b := range initFn.Blocks {
					for _, ins := range b.Instrs {
						if st, ok := ins.(*ssa.Store); ok && st.Addr == ssa.Value(g) {
							return evalInitBig(st.Val)
						}
					}
				}
			}
		}
		return nil, false
	case *ssa.Call:
		callee := x.Common().StaticCallee()
		if callee == nil {
			return nil, false
		}
		name := callee.String()
		args := x.Common().Args
		constInt := func(a ssa.Value) (*big.Int, bool) {
			if k, ok := a.(*ssa.Const); ok && k.Value != nil {
				if iv := constant.ToInt(k.Value); iv.Kind() == constant.Int {
					n, ok := new(big.Int).SetString(iv.ExactString(), 10)
					return n, ok
				}
			}
			if cv, ok := a.(*ssa.Convert); ok {
				if k, ok := cv.X.(*ssa.Const); ok && k.Value != nil {
					if iv := constant.ToInt(k.Value); iv.Kind() == constant.Int {
						n, ok := new(big.Int).SetString(iv.ExactString(), 10)
						return n, ok
					}
				}
			}
			return nil, false
		}
		if name == modulePath+"/helpers.BipToPip" {
			// helpers.BipToPip(x) = x * 10^18 (its three-line body is evaluated here instead of being interpreted)
			if a, ok := evalInitBig(args[0]); ok {
				return new(big.Int).Mul(a, new(big.Int).Exp(big.NewInt(10), big.NewInt(18), nil)), true
			}
			return nil, false
		}
		if name == "math/big.NewInt" {
			return constInt(args[0])
		}
		if strings.HasPrefix(name, "(*math/big.Int).") {
			m := strings.TrimPrefix(name, "(*math/big.Int).")
			switch m {
			case "Add", "Sub", "Mul", "Div", "Quo":
				a, ok1 := evalInitBig(args[1])
				b, ok2 := evalInitBig(args[2])
				if !ok1 || !ok2 {
					return nil, false
				}
				r := new(big.Int)
				switch m {
				case "Add":
					r.Add(a, b)
				case "Sub":
					r.Sub(a, b)
				case "Mul":
					r.Mul(a, b)
				case "Div":
					if b.Sign() == 0 {
						return nil, false
					}
					r.Div(a, b)
				case "Quo":
					if b.Sign() == 0 {
						return nil, false
					}
					r.Quo(a, b)
				}
				return r, true
			case "Exp":
				a, ok1 := evalInitBig(args[1])
				b, ok2 := evalInitBig(args[2])
				if !ok1 || !ok2 {
					return nil, false
				}
				if k, ok := args[3].(*ssa.Const); !ok || k.Value != nil {
					return nil, false
				}
				return new(big.Int).Exp(a, b, nil), true
			case "Set":
				return evalInitBig(args[1])
			case "SetInt64", "SetUint64":
				return constInt(args[1])
			}
		}
		if name == "math/big.NewInt" {
			return constInt(args[0])
		}
	case *ssa.Alloc:
		if isBigInt(x.Type().(*types.Pointer).Elem()) {
			return big.NewInt(0), true
		}
	case *ssa.Extract:
		// first result of SetString("literal", base)
		if c, ok := x.Tuple.(*ssa.Call); ok && x.Index == 0 {
			if callee := c.Common().StaticCallee(); callee != nil && callee.String() == "(*math/big.Int).SetString" {
				if k, ok := c.Common().Args[1].(*ssa.Const); ok && k.Value != nil && k.Value.Kind() == constant.String {
					if bk, ok := c.Common().Args[2].(*ssa.Const); ok {
						base, _ := constant.Int64Val(bk.Value)
						if n, ok := new(big.Int).SetString(constant.StringVal(k.Value), int(base)); ok {
							return n, true
						}
					}
				}
			}
		}
	}
	return nil, false
}

// globalLoc returns the heap location of a global and records the facts known about constants.
func (c *Ctx) globalLoc(g *ssa.Global) *Loc {
	el := g.Type().(*types.Pointer).Elem()
	name := "glob!" + sanitize(g.Pkg.Pkg.Path()+"."+g.Name())
	first := false
	if _, ok := c.heapSorts[name]; !ok {
		first = true
	}
	c.heapName(name, c.sortOf(el))
	gi := c.prog.globals()[g]
	if _, loaded := c.prog.SSAPkgs[g.Pkg.Pkg.Path()]; !loaded && gi == nil {
		// variable of a dependency package (no bodies loaded): exported error values such as io.EOF are assumed to be
		// non-nil constants (A-GLOBALCONST for dependencies, listed in the evidence)
		if types.Identical(el, types.Universe.Lookup("error").Type()) {
			gi = &globalInfo{constant: true, nonNil: true}
			c.trustedUsed["dependency error variable assumed constant and non-nil: "+g.Pkg.Pkg.Path()+"."+g.Name()] = true
		}
	}
	if gi != nil && gi.constant {
		if c.constGlobals == nil {
			c.constGlobals = map[string]*globalInfo{}
		}
		if _, known := c.constGlobals[name]; !known {
			c.grew = true // one more pass, so that no havoc before the first read touches this constant
		}
		c.constGlobals[name] = gi
	}
	_ = first
	return &Loc{Kind: LCell, Name: name, Elem: el}
}

// globalFacts assumes what is known about constant globals in state st (called after every havoc of bigval / at first use).
func (c *Ctx) assumeGlobalFacts(st *State, name string) {
	gi := c.constGlobals[name]
	if gi == nil {
		return
	}
	key := name
	if c.globalFactsDone == nil {
		c.globalFactsDone = map[string]bool{}
	}
	v := c.heapGet(st, name)
	if !c.globalFactsDone[key] {
		c.globalFactsDone[key] = true
		if gi.nonNil {
			c.asserts = append(c.asserts, &Assertion{Seq: 0, Always: true, Text: "(> " + v.S + " 0)"})
			c.asserts = append(c.asserts, &Assertion{Seq: 0, Always: true, Text: "(<= " + v.S + " " + c.heapGet(&State{heap: map[string]*Term{}}, c.allocName()).S + ")"})
		}
		if gi.intVal != nil && v.Sort == SInt {
			c.asserts = append(c.asserts, &Assertion{Seq: 0, Always: true, Text: tEq(v, bigLit(gi.intVal)).S})
		}
		if gi.boolVal != nil && v.Sort == SBool {
			if *gi.boolVal {
				c.asserts = append(c.asserts, &Assertion{Seq: 0, Always: true, Text: v.S})
			} else {
				c.asserts = append(c.asserts, &Assertion{Seq: 0, Always: true, Text: tNot(v).S})
			}
		}
	}
	if gi.bigVal != nil {
		bv := c.heapGet(st, c.bigvalName())
		k := name + "|" + bv.S
		if !c.globalFactsDone[k] {
			c.globalFactsDone[k] = true
			c.asserts = append(c.asserts, &Assertion{Seq: 0, Always: true, Text: tEq(tSelect(bv, v), bigLit(gi.bigVal)).S})
		}
	}
}
