package main

import (
	"go/types"
	"strings"
	"sync"

	"golang.org/x/tools/go/ssa"
)

// Effect analysis (frame inference): a function of the module is "effect-free" when, transitively, it writes only to
// memory it allocated itself, updates only maps it created, and calls only effect-free functions. Calls to such
// functions leave the caller's heap untouched (their results stay unconstrained). The analysis is syntactic and
// conservative; every function accepted by it is listed in the evidence under inferred_effect_free.

type purityTable struct {
	mu   sync.Mutex
	memo map[*ssa.Function]int // 1 = effect-free, 2 = not
}

var nonMutatingBig = map[string]bool{"Cmp": true, "CmpAbs": true, "Sign": true, "String": true, "Text": true, "Int64": true, "Uint64": true, "IsInt64": true,
	"IsUint64": true, "BitLen": true, "Bytes": true, "Bit": true, "Float64": true, "Num": true, "Denom": true, "IsInt": true, "Prec": true, "IsInf": true,
	"FloatString": true, "Format": true, "MarshalJSON": true, "MarshalText": true, "Append": true, "ProbablyPrime": true, "TrailingZeroBits": true, "FillBytes": false}

func (p *Program) effectFree(fn *ssa.Function) bool {
	p.purity.mu.Lock()
	defer p.purity.mu.Unlock()
	if p.purity.memo == nil {
		p.purity.memo = map[*ssa.Function]int{}
	}
	return p.effectFreeRec(fn, 0, map[*ssa.Function]bool{})
}

func (p *Program) effectFreeRec(fn *ssa.Function, depth int, stack map[*ssa.Function]bool) bool {
	if r, ok := p.purity.memo[fn]; ok {
		return r == 1
	}
	if fn.Blocks == nil {
		return isPureLibFunc(fn)
	}
	if depth > 6 || stack[fn] {
		return false
	}
	stack[fn] = true
	defer delete(stack, fn)
	ok := p.scanEffects(fn, depth, stack)
	if ok {
		p.purity.memo[fn] = 1
	} else if depth == 0 {
		p.purity.memo[fn] = 2
	}
	return ok
}

// localRoot reports whether pointer/slice/map value v certainly refers to memory allocated in fn itself.
func localRoot(v ssa.Value, seen map[ssa.Value]bool) bool {
	if seen[v] {
		return true
	}
	seen[v] = true
	switch x := v.(type) {
	case *ssa.Alloc, *ssa.MakeMap, *ssa.MakeSlice:
		return true
	case *ssa.FieldAddr:
		return localRoot(x.X, seen)
	case *ssa.IndexAddr:
		return localRoot(x.X, seen)
	case *ssa.Slice:
		return localRoot(x.X, seen)
	case *ssa.Phi:
		for _, e := range x.Edges {
			if !localRoot(e, seen) {
				return false
			}
		}
		return true
	case *ssa.ChangeType:
		return localRoot(x.X, seen)
	case *ssa.Call:
		if callee := x.Common().StaticCallee(); callee != nil {
			name := callee.String()
			switch {
			case name == "math/big.NewInt" || name == "math/big.NewFloat" || name == "math/big.NewRat":
				return true
			case strings.HasPrefix(name, "(*math/big.Int).") || strings.HasPrefix(name, "(*math/big.Float).") || strings.HasPrefix(name, "(*math/big.Rat)."):
				// arithmetic methods return their receiver
				m := name[strings.LastIndex(name, ".")+1:]
				if mutatingBigMethods[m] || m == "SetPrec" || m == "SetMode" || m == "SetInt" || m == "SetRat" || m == "SetFrac" || m == "SetFloat64" || m == "Copy" {
					return len(x.Common().Args) > 0 && localRoot(x.Common().Args[0], seen)
				}
			}
		}
		if b, ok := x.Common().Value.(*ssa.Builtin); ok && b.Name() == "append" {
			// append may write into the spare capacity of its first argument: local only if that is local (or nil)
			if k, ok := x.Common().Args[0].(*ssa.Const); ok && k.Value == nil {
				return true
			}
			return localRoot(x.Common().Args[0], seen)
		}
	case *ssa.Extract:
		return false
	}
	return false
}

func (p *Program) scanEffects(fn *ssa.Function, depth int, stack map[*ssa.Function]bool) bool {
	for _, b := range fn.Blocks {
		for _, ins := range b.Instrs {
			switch x := ins.(type) {
			case *ssa.Store:
				if !localRoot(x.Addr, map[ssa.Value]bool{}) {
					return false
				}
			case *ssa.MapUpdate:
				if !localRoot(x.Map, map[ssa.Value]bool{}) {
					return false
				}
			case *ssa.Go, *ssa.Send, *ssa.Select:
				return false
			case ssa.CallInstruction:
				if _, isGo := ins.(*ssa.Go); isGo {
					return false
				}
				cc := x.Common()
				if cc.IsInvoke() {
					// conventional pure interface methods
					switch cc.Method.Name() {
					case "Error", "String":
						if cc.Signature().Params().Len() == 0 {
							continue
						}
					}
					return false
				}
				switch callee := cc.Value.(type) {
				case *ssa.Builtin:
					switch callee.Name() {
					case "len", "cap", "panic", "print", "println", "min", "max", "ssa:wrapnilchk", "real", "imag", "complex", "recover":
					case "append":
						if k, ok := cc.Args[0].(*ssa.Const); ok && k.Value == nil {
							continue
						}
						if !localRoot(cc.Args[0], map[ssa.Value]bool{}) {
							return false
						}
					case "copy", "delete", "clear":
						if !localRoot(cc.Args[0], map[ssa.Value]bool{}) {
							return false
						}
					default:
						return false
					}
				case *ssa.Function:
					if !p.calleeEffectFree(callee, cc, depth, stack) {
						return false
					}
				case *ssa.MakeClosure:
					f, ok := callee.Fn.(*ssa.Function)
					if !ok || !p.effectFreeRec(f, depth+1, stack) {
						return false
					}
				default:
					return false
				}
			}
		}
	}
	return true
}

func (p *Program) calleeEffectFree(callee *ssa.Function, cc *ssa.CallCommon, depth int, stack map[*ssa.Function]bool) bool {
	name := callee.String()
	switch {
	case strings.HasPrefix(name, "(*sync."):
		return true // locks are not modelled
	case strings.HasPrefix(name, "(*math/big."):
		m := name[strings.LastIndex(name, ".")+1:]
		if nonMutatingBig[m] {
			return true
		}
		return len(cc.Args) > 0 && localRoot(cc.Args[0], map[ssa.Value]bool{})
	case name == "math/big.NewInt" || name == "math/big.NewFloat" || name == "math/big.NewRat":
		return true
	case name == "encoding/json.Marshal" || name == "github.com/tendermint/tendermint/libs/json.Marshal":
		return true
	}
	if callee.Blocks == nil {
		return isPureLibFunc(callee)
	}
	if ct := p.ContractFor(callee); ct != nil && ct.ModSet && len(ct.Modifies) == 0 {
		return true
	}
	return p.effectFreeRec(callee, depth+1, stack)
}

var _ = types.Typ
