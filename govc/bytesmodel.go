package main

import "fmt"

// bytesContent is the abstract content (a Str value) of a []byte slice in state st: a function of the backing array,
// offset and length. Codecs (big.Int.Bytes, binary.BigEndian, string conversion, db values) are stated over contents.
func (c *Ctx) bytesContent(st *State, s *Term) *Term {
	c.declareFun("gbytes.str", []Sort{ArrSort(SInt, SInt), SInt, SInt}, SStr)
	en := c.elemName(SInt)
	arr := c.sel(c.heapGet(st, en), mk(SInt, "(s.arr "+s.S+")"))
	return app(SStr, "gbytes.str", arr, mk(SInt, "(s.off "+s.S+")"), mk(SInt, "(s.len "+s.S+")"))
}

func (c *Ctx) bytesContentOf(arr *Term, off, ln *Term) *Term {
	c.declareFun("gbytes.str", []Sort{ArrSort(SInt, SInt), SInt, SInt}, SStr)
	return app(SStr, "gbytes.str", arr, off, ln)
}

var _ = fmt.Sprintf
