package main

import (
	"os"
	"fmt"
	"go/types"
	"sort"
	"strings"

	"golang.org/x/tools/go/ssa"
)

func (fr *Frame) hasName(name string) bool {
	for _, p := range fr.fn.Params {
		if p.Name() == name {
			return true
		}
	}
	_, ok := fr.names[name]
	return ok
}

// lookupName resolves a Go-level variable name inside fr (used by loop invariants and asserts).
func (fr *Frame) lookupName(name string, e *Env) (SVal, bool) {
	c := fr.c
	hb, _ := e.hdrBlock.(*ssa.BasicBlock)
	if !fr.hasName(name) {
		// "local <name> <type>" directive: the variable may have been renamed; it is the only local of its type
		if ct := fr.activeContract(); ct != nil && ct.Locals[name] != "" {
			want := strings.ReplaceAll(ct.Locals[name], " ", "")
			qual := func(p *types.Package) string { return p.Name() }
			var cands []string
			for n, bs := range fr.names {
				for _, b := range bs {
					t := b.v.Type()
					if b.addr {
						if pt, ok := t.Underlying().(*types.Pointer); ok {
							t = pt.Elem()
						}
					}
					if strings.ReplaceAll(types.TypeString(t, qual), " ", "") == want {
						cands = append(cands, n)
						break
					}
				}
			}
			if len(cands) == 1 {
				return fr.lookupName(cands[0], e)
			}
		}
	}
	// a parameter that is never reassigned (no phi / DebugRef'd redefinition reaching here) is its entry value;
	// reassigned parameters are resolved below like any other variable, falling back to the entry value
	paramFallback := func() (SVal, bool) {
		for _, p := range fr.fn.Params {
			if p.Name() == name {
				v := fr.vals[p]
				return SVal{T: c.valTerm(v, name), Type: p.Type(), Val: &v}, true
			}
		}
		return SVal{}, false
	}
	if hb == nil {
		if v, ok := paramFallback(); ok {
			return v, true
		}
	}
	// loop<k>_<name>: the header phi <name> of the loop with ordinal k (to mention an outer loop's variable inside an inner invariant)
	if strings.HasPrefix(name, "loop") {
		if i := strings.Index(name, "_"); i > 4 {
			k := -1
			fmt.Sscanf(name[4:i], "%d", &k)
			for b, ord := range fr.loops {
				if ord != k {
					continue
				}
				for _, ins := range b.Instrs {
					phi, ok := ins.(*ssa.Phi)
					if !ok {
						break
					}
					if phi.Comment == name[i+1:] {
						if b == hb {
							if ov, ok := e.phiOverride[phi]; ok {
								return SVal{T: c.valTerm(ov, name), Type: phi.Type(), Val: &ov}, true
							}
						}
						v := fr.vals[phi]
						return SVal{T: c.valTerm(v, name), Type: phi.Type(), Val: &v}, true
					}
				}
			}
		}
	}
	if hb != nil {
		for _, ins := range hb.Instrs {
			phi, ok := ins.(*ssa.Phi)
			if !ok {
				break
			}
			if phi.Comment == name {
				if ov, ok := e.phiOverride[phi]; ok {
					return SVal{T: c.valTerm(ov, name), Type: phi.Type(), Val: &ov}, true
				}
				v := fr.vals[phi]
				return SVal{T: c.valTerm(v, name), Type: phi.Type(), Val: &v}, true
			}
		}
	}
	// the value of source variable `name` at hb: the closest dominating definition, which is either a phi of an
	// enclosing loop header / join block or a DebugRef'd assignment
	bs := append([]nameBinding(nil), fr.names[name]...)
	if hb != nil {
		for _, b := range fr.fn.Blocks {
			if b == hb || !b.Dominates(hb) {
				continue
			}
			for _, ins := range b.Instrs {
				phi, ok := ins.(*ssa.Phi)
				if !ok {
					break
				}
				if phi.Comment == name {
					bs = append(bs, nameBinding{v: phi, block: b, pos: -1})
				}
			}
		}
	}
	var best *nameBinding
	for i := range bs {
		b := &bs[i]
		if hb != nil {
			if b.block == hb || !b.block.Dominates(hb) {
				continue
			}
		}
		if _, ok := fr.vals[b.v]; !ok {
			if _, isConst := b.v.(*ssa.Const); !isConst {
				continue
			}
		}
		switch {
		case best == nil:
			best = b
		case b.block == best.block:
			if b.pos > best.pos {
				best = b
			}
		case best.block.Dominates(b.block):
			best = b
		}
	}
	if best == nil {
		if v, ok := paramFallback(); ok {
			return v, true
		}
		// raw SSA register name (escape hatch)
		for v, val := range fr.vals {
			if v.Name() == name {
				vv := val
				return SVal{T: c.valTerm(val, name), Type: v.Type(), Val: &vv}, true
			}
		}
		return SVal{}, false
	}
	if _, isConst := best.v.(*ssa.Const); isConst && !best.addr {
		// go/ssa records `var m = map[K]V{}` (and other composite-literal initialisers) as a debug reference to the nil
		// constant followed by references to the real value at each use: when every other reference of the variable is one
		// and the same value defined where it dominates hb, that value is the variable
		var only ssa.Value
		same := true
		for _, b := range fr.names[name] {
			if _, c2 := b.v.(*ssa.Const); c2 || b.addr {
				continue
			}
			if only == nil {
				only = b.v
			} else if only != b.v {
				same = false
			}
		}
		if ins, ok := only.(ssa.Instruction); ok && same {
			if _, have := fr.vals[only]; have && (hb == nil || (ins.Block() != hb && ins.Block().Dominates(hb))) {
				val := fr.get(only)
				return SVal{T: c.valTerm(val, name), Type: only.Type(), Val: &val}, true
			}
		}
	}
	val := fr.get(best.v)
	if best.addr {
		loc := c.derefLoc(val, best.v.Type())
		return SVal{T: c.load(e.cur, loc), Type: loc.Elem}, true
	}
	return SVal{T: c.valTerm(val, name), Type: best.v.Type(), Val: &val}, true
}

// evalInvariant evaluates a loop invariant at header hb. If pred != nil the header's phis take the values
// flowing in from pred (entry or back edge); otherwise the current (havocked) phi values.
func (fr *Frame) evalInvariant(inv *Clause, hb *ssa.BasicBlock, pred *ssa.BasicBlock, st *State) *Term {
	c := fr.c
	e := &Env{c: c, vars: map[string]SVal{}, cur: st, old: fr.entry, pkg: fr.fn.Pkg.Pkg, fr: fr, g: tTrue, hdrBlock: hb}
	if ct := fr.activeContract(); ct != nil {
		e.lets = letMap(ct)
		if fr.parent == nil && len(fr.params) > 0 {
			// positional names (recv, arg0, ...) used by clauses and lets imported from an interface contract
			ce := c.contractEnv(ct, fr.fn.Signature, nil, fr.params, fr.fn.Pkg.Pkg, st, fr.entry)
			for k, v := range ce.vars {
				if k == "recv" || (strings.HasPrefix(k, "arg") && len(k) <= 5) {
					e.vars[k] = v
				}
			}
		}
	}
	if pred != nil {
		e.phiOverride = map[*ssa.Phi]Val{}
		for _, ins := range hb.Instrs {
			phi, ok := ins.(*ssa.Phi)
			if !ok {
				break
			}
			for i, p := range hb.Preds {
				if p == pred {
					e.phiOverride[phi] = fr.get(phi.Edges[i])
				}
			}
		}
	}
	return c.safeEvalBool(e, inv)
}

func (fr *Frame) activeContract() *Contract {
	if fr.contract != nil {
		return fr.contract
	}
	return fr.c.prog.ContractFor(fr.fn)
}

func letMap(ct *Contract) map[string]Expr {
	m := map[string]Expr{}
	for _, l := range ct.Lets {
		m[l.Name] = l.E
	}
	return m
}

func (c *Ctx) safeEvalBool(e *Env, cl *Clause) (res *Term) {
	defer func() {
		if r := recover(); r != nil {
			if se, ok := r.(specError); ok {
				c.specErrors = append(c.specErrors, fmt.Sprintf("%s:%d: %s  [%s]", cl.File, cl.Line, se.msg, cl.Src))
				res = tFalse
				return
			}
			panic(r)
		}
	}()
	return e.evalBool(cl.E)
}

// ---------- calls ----------

func (fr *Frame) call(cc *ssa.CallCommon, site ssa.Instruction, st *State, g *Term) (Val, *Term) {
	var args []Val
	for _, a := range cc.Args {
		args = append(args, fr.get(a))
	}
	return fr.callWith(cc, site, st, g, args, fr.get(cc.Value))
}

func (fr *Frame) callWith(cc *ssa.CallCommon, site ssa.Instruction, st *State, g *Term, args []Val, fnVal Val) (Val, *Term) {
	c := fr.c
	resT := cc.Signature().Results()
	var resType types.Type = resT
	if resT.Len() == 1 {
		resType = resT.At(0).Type()
	}
	if cc.IsInvoke() {
		recv := fnVal
		// statically known dynamic type: resolve the method
		if recv.Dyn != nil && recv.DynV != nil {
			ms := c.prog.SSA.MethodSets.MethodSet(recv.Dyn)
			if sel := ms.Lookup(cc.Method.Pkg(), cc.Method.Name()); sel != nil {
				if m := c.prog.SSA.MethodValue(sel); m != nil {
					return fr.callFunc(m, append([]Val{*recv.DynV}, args...), st, g, site, resType)
				}
			}
		}
		// one of several statically known dynamic types, depending on the path taken: dispatch each to its concrete method
		if len(recv.DynAlts) > 0 && os.Getenv("GOVC_NODYNALTS") == "" {
			var ms []*ssa.Function
			for _, a := range recv.DynAlts {
				var m *ssa.Function
				if sel := c.prog.SSA.MethodSets.MethodSet(a.Dyn).Lookup(cc.Method.Pkg(), cc.Method.Name()); sel != nil {
					m = c.prog.SSA.MethodValue(sel)
				}
				ms = append(ms, m)
			}
			ok := true
			for _, m := range ms {
				if m == nil {
					ok = false
				}
			}
			if ok {
				var guards, ngs []*Term
				var sts []*State
				var vals []Val
				allReturn := true
				for i, a := range recv.DynAlts {
					sk := st.clone()
					gk := c.define(fmt.Sprintf("g.dyn%d", i), tAnd(g, a.G))
					v, ng := fr.callFunc(ms[i], append([]Val{a.V}, args...), sk, gk, site, resType)
					guards = append(guards, gk)
					sts = append(sts, sk)
					vals = append(vals, v)
					if ng != nil {
						ngs = append(ngs, ng)
						allReturn = false
					} else {
						ngs = append(ngs, gk)
					}
				}
				merged := c.joinStates(guards, sts)
				st.heap = merged.heap
				if allReturn {
					// every alternative returns normally: the path condition is unchanged (the alternatives' guards are the
					// guards of the edges into the block that defines the receiver, which dominates this call, so under g
					// one of them holds)
					return c.mergeAltVals(guards, vals, resType), nil
				}
				return c.mergeAltVals(guards, vals, resType), c.define("g.dynret", tOr(ngs...))
			}
		}
		// interface-level contract
		if ct := c.ifaceContract(cc); ct != nil {
			return fr.applyContract(ct, nil, cc.Method.Name(), append([]Val{recv}, args...), cc.Signature(), cc.Value.Type(), st, g, site, resType)
		}
		ng := fr.nilCheck(recv, g, st, cc.Pos(), "method call on nil interface")
		if (cc.Method.Name() == "Error" || cc.Method.Name() == "String") && cc.Signature().Params().Len() == 0 {
			// conventional: error.Error() / Stringer.String() only format their receiver (assumption, listed)
			c.trustedUsed["interface method assumed effect-free: "+cc.Method.Name()+"()"] = true
			return c.freshVal(st, orG(ng, g), resType, "str"), ng
		}
		name := "invoke " + types.TypeString(cc.Value.Type(), nil) + "." + cc.Method.Name()
		return fr.havocCall(name, st, orG(ng, g), resType), ng
	}
	switch callee := cc.Value.(type) {
	case *ssa.Builtin:
		return fr.builtin(callee, cc, args, st, g, resType)
	case *ssa.Function:
		return fr.callFunc(callee, args, st, g, site, resType)
	case *ssa.MakeClosure:
		cl := fr.get(callee).Clo
		return fr.callClosure(cl, args, st, g, site, resType)
	}
	if fnVal.Clo != nil {
		return fr.callClosure(fnVal.Clo, args, st, g, site, resType)
	}
	if len(fnVal.Alts) > 0 {
		// one of several known functions, depending on the path taken: execute each under its guard and join
		var guards, ngs []*Term
		var sts []*State
		var vals []Val
		allReturn := true
		for i, a := range fnVal.Alts {
			sk := st.clone()
			gk := c.define(fmt.Sprintf("g.alt%d", i), tAnd(g, a.G))
			v, ng := fr.callClosure(a.V.Clo, args, sk, gk, site, resType)
			guards = append(guards, gk)
			sts = append(sts, sk)
			vals = append(vals, v)
			if ng != nil {
				ngs = append(ngs, ng)
				allReturn = false
			} else {
				ngs = append(ngs, gk)
			}
		}
		merged := c.joinStates(guards, sts)
		st.heap = merged.heap
		if allReturn {
			return c.mergeAltVals(guards, vals, resType), nil // see the interface case above
		}
		return c.mergeAltVals(guards, vals, resType), c.define("g.altret", tOr(ngs...))
	}
	// call through a function value: field contracts
	if ct := fr.funcValueContract(cc); ct != nil {
		return fr.applyContract(ct, nil, ct.FuncName, args, cc.Signature(), nil, st, g, site, resType)
	}
	return fr.havocCall("func value "+cc.Value.Name()+" in "+fr.fn.Name(), st, g, resType), nil
}

func (fr *Frame) callClosure(cl *Closure, args []Val, st *State, g *Term, site ssa.Instruction, resType types.Type) (Val, *Term) {
	c := fr.c
	if cl.Fn.Blocks == nil || fr.depth >= maxInlineDepth || fr.onStack(cl.Fn) {
		return fr.callFunc(cl.Fn, args, st, g, site, resType)
	}
	if len(cl.Bindings) == 0 && len(cl.Fn.FreeVars) == 0 {
		return fr.callFunc(cl.Fn, args, st, g, site, resType)
	}
	_ = c
	return fr.inline(cl.Fn, args, cl.Bindings, st, g, resType)
}

// funcValueContract finds a contract for calls through struct fields of function type: "field T.f".
func (fr *Frame) funcValueContract(cc *ssa.CallCommon) *Contract {
	// value is a load (*UnOp) of a FieldAddr
	if u, ok := cc.Value.(*ssa.UnOp); ok {
		if fa, ok := u.X.(*ssa.FieldAddr); ok {
			pt := fa.X.Type().Underlying().(*types.Pointer)
			st := pt.Elem().Underlying().(*types.Struct)
			if n, ok := pt.Elem().(*types.Named); ok {
				key := n.Obj().Pkg().Path() + "::field " + n.Obj().Name() + "." + st.Field(fa.Field).Name()
				if ct, ok := fr.c.prog.Contracts[key]; ok {
					return ct
				}
			}
		}
	}
	return nil
}

func (c *Ctx) ifaceContract(cc *ssa.CallCommon) *Contract {
	t := cc.Value.Type()
	if n, ok := t.(*types.Named); ok && n.Obj().Pkg() != nil {
		key := n.Obj().Pkg().Path() + "::iface " + n.Obj().Name() + "." + cc.Method.Name()
		if ct, ok := c.prog.Contracts[key]; ok {
			return ct
		}
	}
	// embedded / anonymous interfaces: the contract is keyed by the package declaring the method: "iface _.Method"
	if cc.Method.Pkg() != nil {
		key := cc.Method.Pkg().Path() + "::iface _." + cc.Method.Name()
		if ct, ok := c.prog.Contracts[key]; ok {
			return ct
		}
	}
	return nil
}

func (fr *Frame) havocCall(name string, st *State, g *Term, resType types.Type) Val {
	c := fr.c
	c.uncontracted[name]++
	c.havocAll(st)
	return c.freshVal(st, g, resType, "ret."+sanitize(name))
}

func (fr *Frame) callFunc(fn *ssa.Function, args []Val, st *State, g *Term, site ssa.Instruction, resType types.Type) (Val, *Term) {
	c := fr.c
	full := fn.String()
	// 1. built-in library models
	if v, ng, ok := fr.libModel(fn, full, args, st, g, site, resType); ok {
		return v, ng
	}
	if c.lockCheck && fn.Pkg != nil {
		if lp := c.prog.Contracts[funcKey(fn)+"#lockpre"]; lp != nil {
			fr.obligeLockPre(lp, fn, args, st, g, site)
		}
	}
	// 2. contract
	if ct := c.prog.ContractFor(fn); ct != nil && !ct.Inline {
		var recvT types.Type
		// interior pointers (&x.f, &s[i]) to non-struct values handed to a contract: the callee sees a cell of its own
		// (a negative address: never nil, never one of the allocated references) holding the current value of the
		// field; what the callee leaves in the cell is written back to the field afterwards
		type backRef struct {
			loc, cell *Loc
		}
		var backs []backRef
		args = append([]Val(nil), args...)
		var ptys []types.Type
		if fn.Signature.Recv() != nil {
			ptys = append(ptys, fn.Signature.Recv().Type())
		}
		for i := 0; i < fn.Signature.Params().Len(); i++ {
			ptys = append(ptys, fn.Signature.Params().At(i).Type())
		}
		for i := range args {
			if args[i].T != nil || args[i].Loc == nil || i >= len(ptys) {
				continue
			}
			pt, ok := ptys[i].Underlying().(*types.Pointer)
			if !ok {
				continue
			}
			if _, isStruct := pt.Elem().Underlying().(*types.Struct); isStruct && !isOpaqueStruct(pt.Elem()) {
				continue
			}
			if _, ok := c.locTerm(args[i].Loc); ok {
				continue
			}
			addr := c.fresh("interior", SInt)
			c.assumeG(g, mk(SBool, "(< "+addr.S+" 0)"))
			cell := c.derefLoc(Val{T: addr}, ptys[i])
			c.store(st, cell, c.load(st, args[i].Loc))
			backs = append(backs, backRef{args[i].Loc, cell})
			args[i] = Val{T: addr}
		}
		v, ng := fr.applyContract(ct, fn, full, args, fn.Signature, recvT, st, g, site, resType)
		for _, b := range backs {
			c.store(st, b.loc, c.load(st, b.cell))
		}
		return v, ng
	}
	// 3. inline
	if fn.Blocks != nil && fr.depth < maxInlineDepth && !fr.onStack(fn) {
		n := 0
		for _, b := range fn.Blocks {
			n += len(b.Instrs)
		}
		ct := c.prog.ContractFor(fn)
		if n <= maxInlineInstrs || (ct != nil && ct.Inline) {
			c.inlined[full] = true
			return fr.inline(fn, args, nil, st, g, resType)
		}
	}
	// 4. inferred frame: effect-free by the syntactic analysis -> heap untouched, result unconstrained
	if c.prog.effectFree(fn) {
		c.effectFreeUsed[full] = true
		an := c.allocName()
		oldA := c.heapGet(st, an)
		nv := c.heapHavoc(st, an)
		c.assumeG(g, tGe(nv, oldA))
		return c.freshVal(st, g, resType, "ef."+sanitize(fn.Name())), nil
	}
	// 5. unknown
	return fr.havocCall(full, st, g, resType), nil
}

func (fr *Frame) inline(fn *ssa.Function, args []Val, free []Val, st *State, g *Term, resType types.Type) (Val, *Term) {
	c := fr.c
	nf := c.newFrame(fn, fr)
	nf.params = args
	nf.freeVars = free
	rets := nf.exec(st, g)
	if len(rets) == 0 {
		// never returns normally (always panics)
		return c.freshVal(st, tFalse, resType, "noret"), tFalse
	}
	var guards []*Term
	var sts []*State
	for _, r := range rets {
		guards = append(guards, r.guard)
		sts = append(sts, r.st)
	}
	ng := c.define("g.ret."+fn.Name(), tOr(guards...))
	merged := c.joinStates(guards, sts)
	st.heap = merged.heap
	// merge results
	nres := fn.Signature.Results().Len()
	var out []Val
	for i := 0; i < nres; i++ {
		if len(rets) == 1 {
			out = append(out, rets[0].vals[i])
			continue
		}
		first := rets[0].vals[i]
		if first.T == nil {
			allSame := true
			for _, r := range rets[1:] {
				if r.vals[i].Loc != first.Loc || r.vals[i].Clo != first.Clo {
					allSame = false
				}
			}
			if !allSame {
				c.warn("inlined %s returns non-term values on several paths", fn.Name())
			}
			out = append(out, first)
			continue
		}
		res := c.valTerm(rets[len(rets)-1].vals[i], "ret")
		for k := len(rets) - 2; k >= 0; k-- {
			res = tIte(rets[k].guard, c.valTerm(rets[k].vals[i], "ret"), res)
		}
		out = append(out, tv(c.define("ret."+fn.Name(), res)))
	}
	var rv Val
	switch nres {
	case 0:
		rv = Val{}
	case 1:
		rv = out[0]
	default:
		rv = Val{Tuple: out}
	}
	if ng.S == g.S {
		return rv, nil
	}
	return rv, ng
}

// contractEnv builds the evaluation environment for a callee contract at a call site (or for the function itself).
func (c *Ctx) contractEnv(ct *Contract, sig *types.Signature, recvIface types.Type, args []Val, pkg *types.Package, cur, old *State) *Env {
	e := &Env{c: c, vars: map[string]SVal{}, cur: cur, old: old, pkg: pkg, lets: letMap(ct), g: tTrue}
	i := 0
	if sig.Recv() != nil {
		name := sig.Recv().Name()
		if name == "" || name == "_" {
			name = "recv"
		}
		if i < len(args) {
			a := args[i]
			rt := sig.Recv().Type()
			if recvIface != nil {
				rt = recvIface
			}
			e.vars[name] = SVal{T: c.valTerm(a, name), Type: rt, Val: &a}
			e.vars["recv"] = e.vars[name]
			if it := c.implementedIface(ct, pkg); it != nil && recvIface == nil {
				// clauses imported from the interface contract see the receiver as the interface value holding it
				if _, isIface := rt.Underlying().(*types.Interface); !isIface {
					e.vars["recv"] = SVal{T: c.boxIface(rt, c.valTerm(a, name), cur, tTrue), Type: it}
				}
			}
		}
		i++
	}
	ps := sig.Params()
	for k := 0; k < ps.Len(); k++ {
		name := ps.At(k).Name()
		if i < len(args) {
			a := args[i]
			sv := SVal{T: c.valTerm(a, name), Type: ps.At(k).Type(), Val: &a}
			if name != "" && name != "_" {
				e.vars[name] = sv
			}
			e.vars[fmt.Sprintf("arg%d", k)] = sv
		}
		i++
	}
	if ct != nil && ct == c.unitContract {
		for n, sv := range c.unitFree {
			if _, taken := e.vars[n]; !taken {
				e.vars[n] = sv
			}
		}
	}
	return e
}

// implementedIface returns the interface type named by the contract's first "implements iface T.M" directive.
func (c *Ctx) implementedIface(ct *Contract, pkg *types.Package) types.Type {
	if ct == nil || len(ct.Implements) == 0 || pkg == nil {
		return nil
	}
	name := strings.TrimPrefix(ct.Implements[0], "iface ")
	if i := strings.Index(name, "."); i > 0 {
		name = name[:i]
	}
	if obj := pkg.Scope().Lookup(name); obj != nil {
		if tn, ok := obj.(*types.TypeName); ok {
			return tn.Type()
		}
	}
	return nil
}

func bindResults(e *Env, sig *types.Signature, res Val) {
	rs := sig.Results()
	c := e.c
	for k := 0; k < rs.Len(); k++ {
		var v Val
		if rs.Len() == 1 {
			v = res
		} else if k < len(res.Tuple) {
			v = res.Tuple[k]
		}
		vv := v
		sv := SVal{T: c.valTerm(v, "result"), Type: rs.At(k).Type(), Val: &vv}
		if n := rs.At(k).Name(); n != "" && n != "_" {
			e.vars[n] = sv
		}
		e.vars[fmt.Sprintf("result%d", k)] = sv
		if k == 0 {
			e.vars["result"] = sv
		}
	}
}

func (c *Ctx) pkgOfContract(ct *Contract) *types.Package {
	return c.prog.typesPkg(ct.Pkg)
}

// applyContract uses a callee's contract at a call site.
func (fr *Frame) applyContract(ct *Contract, fn *ssa.Function, name string, args []Val, sig *types.Signature, recvIface types.Type, st *State, g *Term, site ssa.Instruction, resType types.Type) (Val, *Term) {
	c := fr.c
	if ct.Trusted {
		c.trustedUsed[ct.Pkg+"::"+ct.FuncName] = true
	}
	pre := st.clone()
	e := c.contractEnv(ct, sig, recvIface, args, c.pkgOfContract(ct), pre, nil)
	// preconditions become obligations of the caller
	short := ct.FuncName
	for k, r := range ct.Requires {
		if r.Assumed {
			continue // input well-formedness: assumed inside the callee and listed there, not asked of callers
		}
		goal := c.safeEvalBool(e, r)
		if c.unitContract != nil {
			why, ok := c.unitContract.AssumesPre[short]
			if !ok {
				// "assumespre F/label: reason" assumes one precondition of F only
				why, ok = c.unitContract.AssumesPre[short+"/"+clauseLabel(r, k)]
			}
			if ok {
				c.assumeG(g, goal)
				c.trustedUsed["precondition of "+short+" assumed at its call sites in "+c.unitName+" ("+why+"): "+r.Src] = true
				continue
			}
		}
		key := short + "." + clauseLabel(r, k)
		n := c.preCount[key]
		c.preCount[key] = n + 1
		pos := ""
		if site != nil {
			pos = c.posOf(site.Pos())
		}
		c.oblige(&Obligation{Name: fmt.Sprintf("%s/pre#%s@%d", c.unitName, key, n), Func: c.unitName, Kind: "pre",
			Guard: g, Goal: goal, Pos: pos, Src: "requires of " + short + ": " + r.Src, Tags: r.Tags})
	}
	// frame: havoc what the callee may modify
	if !ct.ModSet {
		c.havocAll(st)
	} else {
		for _, m := range ct.Modifies {
			c.havocModifies(e, m, st, pre, g)
		}
	}
	// allocation may always happen
	if !ct.Pure {
		an := c.allocName()
		oldA := c.heapGet(st, an)
		nv := c.heapHavoc(st, an)
		c.assumeG(g, tGe(nv, oldA))
	}
	res := c.freshVal(st, g, resType, "ret."+sanitize(short))
	pe := c.contractEnv(ct, sig, recvIface, args, c.pkgOfContract(ct), st, pre)
	bindResults(pe, sig, res)
	var ng *Term
	for _, en := range ct.Ensures {
		t := c.safeEvalBool(pe, en)
		c.assumeG(g, t)
		// clauses stated for declared skolem constants hold for every value of those constants (the callee proved them
		// for arbitrary ones: no precondition may mention them): assume the universally quantified version as well
		sk := ct.Skolems
		if len(sk) > 0 {
			okGen := true
			for _, r := range ct.Requires {
				re := *e
				re.skolems = map[string]*Term{}
				re.inQuant = true
				for _, s := range sk {
					re.skolems[s] = mk(SInt, "q!sk."+sanitize(s))
				}
				if strings.Contains(c.safeEvalBool(&re, r).S, "q!sk.") {
					okGen = false
				}
			}
			if !okGen {
				c.specErrors = append(c.specErrors, fmt.Sprintf("%s:%d: skolem constant constrained by a precondition: clause not generalised", en.File, en.Line))
			} else {
				qe := *pe
				qe.skolems = map[string]*Term{}
				qe.inQuant = true
				var binds []string
				for _, s := range sk {
					v := "q!sk." + sanitize(s)
					qe.skolems[s] = mk(SInt, v)
					binds = append(binds, "("+v+" Int)")
				}
				body := c.safeEvalBool(&qe, en)
				var usedBinds []string
				for i, s := range sk {
					if strings.Contains(body.S, "q!sk."+sanitize(s)) {
						usedBinds = append(usedBinds, binds[i])
					}
				}
				binds = usedBinds
				var pats []string
				seen := map[string]bool{}
				for _, args := range findApps(body.S, "sidx") {
					if len(args) == 2 && strings.HasPrefix(args[1], "q!sk.") && !strings.Contains(args[0], "q!") && !seen[args[0]+args[1]] {
						seen[args[0]+args[1]] = true
						pats = append(pats, fmt.Sprintf(":pattern ((sidx %s %s))", args[0], args[1]))
					}
				}
				if len(binds) == 1 && len(pats) > 0 && len(pats) <= 4 {
					c.assumeG(g, mk(SBool, fmt.Sprintf("(forall (%s) (! %s %s))", strings.Join(binds, " "), body.S, strings.Join(pats, " "))))
				}
				if len(binds) > 0 { // (no binder: the clause does not mention a skolem constant)
					c.assumeG(g, mk(SBool, fmt.Sprintf("(forall (%s) %s)", strings.Join(binds, " "), body.S)))
				}
			}
		}
		if en.Tags["assumed"] {
			c.trustedUsed["assumed postcondition of "+shortPkg(ct.Pkg)+"."+ct.FuncName+": "+en.Src] = true
		}
		if en.Tags["real"] {
			c.usesReal = true
		}
	}
	return res, ng
}

// havocModifies havocs one entry of a modifies clause.
func (c *Ctx) havocModifies(e *Env, m string, st, pre *State, g *Term) {
	if m == "*" {
		c.havocAll(st)
		return
	}
	defer func() {
		if r := recover(); r != nil {
			if se, ok := r.(specError); ok {
				c.specErrors = append(c.specErrors, fmt.Sprintf("modifies %s: %s", m, se.msg))
				c.havocAll(st)
				return
			}
			panic(r)
		}
	}()
	x, err := ParseExpr(m)
	if err != nil {
		panic(specError{err.Error()})
	}
	// "cond ? target : nothing": the target may change only when cond holds in the pre-state (e.g. a field of an object
	// that may be absent); only usable in contracts that are assumed (trusted / interface), the frame check rejects it
	var cond *Term
	if ce, ok := x.(*ECond); ok {
		if id, ok := ce.B.(*EIdent); !ok || id.Name != "nothing" {
			panic(specError{"conditional modifies must have the form cond ? target : nothing"})
		}
		cond = e.evalBool(ce.C)
		x = ce.A
	}
	names, points := c.modTargets(e, x)
	for i, n := range names {
		if points[i] == nil {
			old := c.heapGet(st, n)
			nv := c.heapHavoc(st, n)
			if cond != nil {
				c.heapSet(st, n, tIte(cond, nv, old))
			}
			continue
		}
		if cond != nil {
			old := c.heapGet(st, n)
			idx := points[i]
			inner := old
			var chain []*Term
			for _, ix := range idx {
				chain = append(chain, inner)
				inner = tSelect(inner, ix)
			}
			nv := c.fresh(n+".pt", inner.Sort)
			var res *Term = nv
			for k := len(idx) - 1; k >= 0; k-- {
				res = tStore(chain[k], idx[k], res)
			}
			c.heapSet(st, n, tIte(cond, res, old))
			continue
		}
		// point update: new = store(old, idx.., fresh)
		old := c.heapGet(st, n)
		idx := points[i]
		inner := old
		var chain []*Term
		for _, ix := range idx {
			chain = append(chain, inner)
			inner = tSelect(inner, ix)
		}
		nv := c.fresh(n+".pt", inner.Sort)
		var res *Term = nv
		for k := len(idx) - 1; k >= 0; k-- {
			res = tStore(chain[k], idx[k], res)
		}
		c.heapSet(st, n, res)
	}
}

// modTargets resolves a modifies entry to heap names and optional index points.
func (c *Ctx) modTargets(e *Env, x Expr) (names []string, points [][]*Term) {
	switch n := x.(type) {
	case *EIdent:
		if g, ok := c.prog.Ghosts[n.Name]; ok {
			return []string{c.ghostName(g, e)}, [][]*Term{nil}
		}
		switch n.Name {
		case "bigval":
			return []string{c.bigvalName()}, [][]*Term{nil}
		case "realval":
			return []string{c.realvalName()}, [][]*Term{nil}
		}
		// a global variable
		if e.pkg != nil {
			if v, ok := e.pkg.Scope().Lookup(n.Name).(*types.Var); ok {
				return []string{c.heapName("glob!"+sanitize(e.pkg.Path()+"."+v.Name()), c.sortOf(v.Type()))}, [][]*Term{nil}
			}
		}
		// raw heap name
		if _, ok := c.heapSorts[n.Name]; ok {
			return []string{n.Name}, [][]*Term{nil}
		}
		panic(specError{"unknown modifies target " + n.Name})
	case *ECall:
		if g, ok := c.prog.Ghosts[n.Fn]; ok {
			var idx []*Term
			for _, a := range n.Args {
				idx = append(idx, c.wrapKey(e.eval(a).T))
			}
			return []string{c.ghostName(g, e)}, [][]*Term{idx}
		}
		if n.Fn == "elems" && len(n.Args) == 1 {
			// elems(s): the backing array of slice s
			s := e.eval(n.Args[0])
			if _, isIface := s.Type.Underlying().(*types.Interface); isIface {
				// a slice passed as interface{} (sort.Slice): usable when its dynamic type is known on this path
				if s.Val != nil && s.Val.Dyn != nil && s.Val.DynV != nil {
					if du, ok := s.Val.Dyn.Underlying().(*types.Slice); ok {
						return []string{c.elemNameT(du.Elem())}, [][]*Term{{mk(SInt, "(s.arr "+c.valTerm(*s.Val.DynV, "x").S+")")}}
					}
				}
				panic(specError{"elems(): dynamic type of the interface value is not a statically known slice"})
			}
			u := s.Type.Underlying().(*types.Slice)
			return []string{c.elemNameT(u.Elem())}, [][]*Term{{mk(SInt, "(s.arr "+s.T.S+")")}}
		}
		if n.Fn == "mapof" && len(n.Args) == 1 {
			m := e.eval(n.Args[0])
			mt := m.Type.Underlying().(*types.Map)
			dn, vn, cn := c.mapNames(mt)
			return []string{dn, vn, cn}, [][]*Term{{m.T}, {m.T}, {m.T}}
		}
	case *ESel:
		// T.f  (whole field array)  or  x.f (one object)  or x.val
		if id, ok := n.X.(*EIdent); ok {
			if _, isVar := e.vars[id.Name]; !isVar {
				if t := e.lookupType(id.Name); t != nil {
					path, _, ok := fieldPath(t, n.Name)
					if ok && len(path) == 1 {
						return []string{c.fieldArrayName(t, path[0])}, [][]*Term{nil}
					}
				}
			}
		}
		if s2, ok := n.X.(*ESel); ok {
			// pkg.T.f
			if id, ok := s2.X.(*EIdent); ok {
				if _, isVar := e.vars[id.Name]; !isVar {
					if t := e.lookupType(id.Name + "." + s2.Name); t != nil {
						path, _, ok := fieldPath(t, n.Name)
						if ok && len(path) == 1 {
							return []string{c.fieldArrayName(t, path[0])}, [][]*Term{nil}
						}
					}
				}
			}
		}
		x := e.eval(n.X)
		if x.Type == nil {
			panic(specError{"modifies: untyped base"})
		}
		if n.Name == "val" && isPtrTo(x.Type, isBigInt) {
			return []string{c.bigvalName()}, [][]*Term{{x.T}}
		}
		if n.Name == "real" && isPtrTo(x.Type, isBigFloat) {
			return []string{c.realvalName()}, [][]*Term{{x.T}}
		}
		path, _, ok := fieldPath(x.Type, n.Name)
		if !ok {
			panic(specError{"modifies: no field " + n.Name})
		}
		cur := x
		for k := 0; k < len(path)-1; k++ {
			cur = e.selectField(cur, path[k])
		}
		p, ok := cur.Type.Underlying().(*types.Pointer)
		if !ok {
			panic(specError{"modifies: field of non-pointer"})
		}
		return []string{c.fieldArrayName(p.Elem(), path[len(path)-1])}, [][]*Term{{cur.T}}
	}
	panic(specError{"unsupported modifies target"})
}

// ---------- builtins ----------

func (fr *Frame) builtin(b *ssa.Builtin, cc *ssa.CallCommon, args []Val, st *State, g *Term, resType types.Type) (Val, *Term) {
	c := fr.c
	switch b.Name() {
	case "len", "delete":
		if len(cc.Args) > 0 {
			fr.guardUse(cc.Args[0], b.Name() == "delete", st, g, cc.Pos(), b.Name())
		}
	}
	switch b.Name() {
	case "len":
		x := args[0]
		switch u := cc.Args[0].Type().Underlying().(type) {
		case *types.Slice:
			return tv(mk(SInt, "(s.len "+x.T.S+")")), nil
		case *types.Map:
			dn, _, cn := c.mapNames(u)
			card := tSelect(c.heapGet(st, cn), x.T)
			// a map whose length is zero has no keys (the only link between the cardinality and the domain the model knows)
			ks := c.mapKeySort(u)
			c.assumeG(g, mk(SBool, fmt.Sprintf("(=> (= %s 0) (= %s ((as const (Array %s Bool)) false)))", card.S, tSelect(c.heapGet(st, dn), x.T).S, ks)))
			c.assumeG(g, tGe(card, intLit(0)))
			return tv(tIte(tEq(x.T, intLit(0)), intLit(0), card)), nil
		case *types.Basic:
			return tv(app(SInt, "gstr.len", x.T)), nil
		case *types.Array:
			return tv(intLit(u.Len())), nil
		case *types.Pointer:
			if a, ok := u.Elem().Underlying().(*types.Array); ok {
				return tv(intLit(a.Len())), nil
			}
		}
	case "cap":
		if _, ok := cc.Args[0].Type().Underlying().(*types.Slice); ok {
			c.declareFun("s.cap", []Sort{SSlice}, SInt)
			v := app(SInt, "s.cap", args[0].T)
			c.assumeG(g, mk(SBool, fmt.Sprintf("(>= %s (s.len %s))", v.S, args[0].T.S)))
			return tv(v), nil
		}
	case "append":
		return fr.appendBuiltin(cc, args, st, g), nil
	case "copy":
		return fr.copyBuiltin(cc, args, st, g), nil
	case "delete":
		mt := cc.Args[0].Type().Underlying().(*types.Map)
		dn, _, cn := c.mapNames(mt)
		m, k := args[0].T, c.mapKey(mt, args[1].T)
		dom := tSelect(c.heapGet(st, dn), m)
		was := tSelect(dom, k)
		cnt := tSelect(c.heapGet(st, cn), m)
		// delete on a nil map is a no-op
		if _, own := c.allocOf[m.S]; own {
			// a map made by this function: not nil, and the stores are tracked as writes to an own object (framed loop havoc)
			c.heapSet(st, cn, c.sto(c.heapGet(st, cn), m, tIte(was, tSub(cnt, intLit(1)), cnt)))
			c.heapSet(st, dn, c.sto(c.heapGet(st, dn), m, tStore(dom, k, tFalse)))
			return Val{}, nil
		}
		notNil := tNot(tEq(m, intLit(0)))
		c.heapSet(st, cn, tIte(notNil, tStore(c.heapGet(st, cn), m, tIte(was, tSub(cnt, intLit(1)), cnt)), c.heapGet(st, cn)))
		c.heapSet(st, dn, tIte(notNil, tStore(c.heapGet(st, dn), m, tStore(dom, k, tFalse)), c.heapGet(st, dn)))
		return Val{}, nil
	case "print", "println":
		return Val{}, nil
	case "min", "max":
		if len(args) == 2 && args[0].T.Sort == SInt {
			f := "minI"
			if b.Name() == "max" {
				f = "maxI"
			}
			return tv(app(SInt, f, args[0].T, args[1].T)), nil
		}
	case "recover":
		c.unsupported("recover in %s", fr.fn.Name())
		return tv(intLit(0)), nil
	case "ssa:wrapnilchk":
		return args[0], nil
	}
	c.unsupported("builtin %s", b.Name())
	return c.freshVal(st, g, resType, "builtin."+b.Name()), nil
}

func (fr *Frame) appendBuiltin(cc *ssa.CallCommon, args []Val, st *State, g *Term) Val {
	c := fr.c
	st0 := cc.Args[0].Type().Underlying().(*types.Slice)
	es := c.sortOf(st0.Elem())
	en := c.elemNameT(st0.Elem())
	s := args[0].T
	// source: slice (variadic) or string
	var addLen *Term
	var srcElem func(j *Term) *Term
	if _, ok := cc.Args[1].Type().Underlying().(*types.Slice); ok {
		src := args[1].T
		addLen = mk(SInt, "(s.len "+src.S+")")
		srcArr := c.define("append.src", tSelect(c.heapGet(st, en), mk(SInt, "(s.arr "+src.S+")")))
		srcElem = func(j *Term) *Term {
			return tSelect(srcArr, mk(SInt, fmt.Sprintf("(sidx %s %s)", src.S, j.S)))
		}
	} else {
		c.declareFun("gstr.at", []Sort{SStr, SInt}, SInt)
		addLen = app(SInt, "gstr.len", args[1].T)
		srcElem = func(j *Term) *Term { return app(SInt, "gstr.at", args[1].T, j) }
	}
	oldArr := c.define("append.old", tSelect(c.heapGet(st, en), mk(SInt, "(s.arr "+s.S+")")))
	r := c.allocRef(st, g, "append")
	newArr := c.fresh("append.arr", ArrSort(SInt, es))
	oldLen := mk(SInt, "(s.len "+s.S+")")
	// contents: prefix copied, suffix from source (A-APPEND: always a fresh backing array)
	c.assumeG(g, mk(SBool, fmt.Sprintf("(forall ((j Int)) (! (=> (and (<= 0 j) (< j %s)) (= (select %s j) (select %s (+ (s.off %s) j)))) :pattern ((select %s j))))", oldLen.S, newArr.S, oldArr.S, s.S, newArr.S)))
	// common special cases without quantifiers: appended elements (up to 4 when the source length is syntactically small is unknown, so use quantifier too)
	j := mk(SInt, "j")
	c.assumeG(g, mk(SBool, fmt.Sprintf("(forall ((j Int)) (! (=> (and (<= 0 j) (< j %s)) (= (select %s (+ %s j)) %s)) :pattern ((select %s (+ %s j)))))", addLen.S, newArr.S, oldLen.S, srcElem(j).S, newArr.S, oldLen.S)))
	// and the frequently needed instance j = 0 .. 1 explicitly
	for k := 0; k < 2; k++ {
		kk := intLit(int64(k))
		c.assumeG(g, mk(SBool, fmt.Sprintf("(=> (< %d %s) (= (select %s (+ %s %d)) %s))", k, addLen.S, newArr.S, oldLen.S, k, srcElem(kk).S)))
	}
	if b, ok := st0.Elem().Underlying().(*types.Basic); ok && b.Kind() == types.Uint8 {
		// byte slices: the abstract content of the result is the concatenation of the contents of the two operands
		c.declareFun("gstr.cat", []Sort{SStr, SStr}, SStr)
		var srcStr *Term
		if _, ok := cc.Args[1].Type().Underlying().(*types.Slice); ok {
			srcStr = c.bytesContent(st, args[1].T)
		} else {
			srcStr = args[1].T
		}
		c.assumeG(g, tEq(c.bytesContentOf(newArr, intLit(0), tAdd(oldLen, addLen)), app(SStr, "gstr.cat", c.bytesContent(st, s), srcStr)))
	}
	c.heapSet(st, en, c.sto(c.heapGet(st, en), r, newArr))
	return tv(c.define("append.res", mk(SSlice, fmt.Sprintf("(mk-slice %s 0 (+ %s %s))", r.S, oldLen.S, addLen.S))))
}

func (fr *Frame) copyBuiltin(cc *ssa.CallCommon, args []Val, st *State, g *Term) Val {
	c := fr.c
	dt := cc.Args[0].Type().Underlying().(*types.Slice)
	es := c.sortOf(dt.Elem())
	en := c.elemNameT(dt.Elem())
	d := args[0].T
	var srcLen *Term
	var srcElem func(j string) string
	if _, ok := cc.Args[1].Type().Underlying().(*types.Slice); ok {
		s := args[1].T
		srcLen = mk(SInt, "(s.len "+s.S+")")
		srcArr := c.define("copy.src", tSelect(c.heapGet(st, en), mk(SInt, "(s.arr "+s.S+")")))
		srcElem = func(j string) string { return fmt.Sprintf("(select %s (sidx %s %s))", srcArr.S, s.S, j) }
	} else {
		c.declareFun("gstr.at", []Sort{SStr, SInt}, SInt)
		srcLen = app(SInt, "gstr.len", args[1].T)
		srcElem = func(j string) string { return fmt.Sprintf("(gstr.at %s %s)", args[1].T.S, j) }
	}
	n := c.define("copy.n", app(SInt, "minI", mk(SInt, "(s.len "+d.S+")"), srcLen))
	oldArr := c.define("copy.old", tSelect(c.heapGet(st, en), mk(SInt, "(s.arr "+d.S+")")))
	newArr := c.fresh("copy.arr", ArrSort(SInt, es))
	c.assumeG(g, mk(SBool, fmt.Sprintf("(forall ((j Int)) (! (= (select %s j) (ite (and (<= (s.off %s) j) (< j (+ (s.off %s) %s))) %s (select %s j))) :pattern ((select %s j))))",
		newArr.S, d.S, d.S, n.S, srcElem(fmt.Sprintf("(- j (s.off %s))", d.S)), oldArr.S, newArr.S)))
	c.heapSet(st, en, tStore(c.heapGet(st, en), mk(SInt, "(s.arr "+d.S+")"), newArr))
	if ploc := fr.arrSlices[d.S]; ploc != nil {
		// the destination is x[:] of an array x: the array itself receives the bytes
		c.store(st, ploc, newArr)
	}
	return tv(n)
}

// sortedKeys is a helper for deterministic iteration.
func sortedKeys(m map[string]int) []string {
	var ks []string
	for k := range m {
		ks = append(ks, k)
	}
	sort.Strings(ks)
	return ks
}

var _ = strings.Join

// mergeAltVals joins the results of the alternatives of a split call: ite over the alternatives' guards.
func (c *Ctx) mergeAltVals(guards []*Term, vals []Val, resType types.Type) Val {
	if len(vals) == 1 {
		return vals[0]
	}
	if tup, ok := resType.(*types.Tuple); ok {
		if tup.Len() == 0 {
			return Val{}
		}
		var out []Val
		for i := 0; i < tup.Len(); i++ {
			var vs []Val
			for _, v := range vals {
				if i < len(v.Tuple) {
					vs = append(vs, v.Tuple[i])
				} else {
					vs = append(vs, tv(c.fresh("altres", c.sortOf(tup.At(i).Type()))))
				}
			}
			out = append(out, c.mergeAltVals(guards, vs, tup.At(i).Type()))
		}
		return Val{Tuple: out}
	}
	res := c.valTerm(vals[len(vals)-1], "altres")
	for k := len(vals) - 2; k >= 0; k-- {
		res = tIte(guards[k], c.valTerm(vals[k], "altres"), res)
	}
	return tv(c.define("altres", res))
}
