package main

import (
	"encoding/json"
	"flag"
	"fmt"
	"os"
	"path/filepath"
	"sort"
	"strconv"
	"strings"
	"time"
)

type knownFinding struct {
	Property   string
	Obligation string
	Text       string
	Fixed      bool
	Commit     string
}

func loadKnownFindings(path string) []knownFinding {
	b, err := os.ReadFile(path)
	if err != nil {
		return nil
	}
	var out []knownFinding
	for _, l := range strings.Split(string(b), "\n") {
		l = strings.TrimSpace(l)
		if l == "" || strings.HasPrefix(l, "#") {
			continue
		}
		var kf knownFinding
		switch {
		case strings.HasPrefix(l, "finding:"):
			l = strings.TrimSpace(l[len("finding:"):])
		case strings.HasPrefix(l, "fixed:"):
			kf.Fixed = true
			l = strings.TrimSpace(l[len("fixed:"):])
		default:
			continue
		}
		f := strings.Fields(l)
		rest := []string{}
		for _, w := range f {
			switch {
			case strings.HasPrefix(w, "property=") && kf.Property == "":
				kf.Property = w[len("property="):]
			case strings.HasPrefix(w, "obligation=") && kf.Obligation == "":
				kf.Obligation = w[len("obligation="):]
			case strings.HasPrefix(w, "commit=") && kf.Commit == "":
				kf.Commit = w[len("commit="):]
			default:
				rest = append(rest, w)
			}
		}
		kf.Text = strings.Join(rest, " ")
		out = append(out, kf)
	}
	return out
}

type sampleObl struct {
	Name   string `json:"name"`
	Kind   string `json:"kind"`
	Src    string `json:"src"`
	Pos    string `json:"pos"`
	Status string `json:"status"`
	Solver string `json:"solver"`
	Ms     int64  `json:"ms"`
	Hyps   int    `json:"hypotheses"`
	Size   int    `json:"smt_bytes"`
}

type funcEvidence struct {
	Name        string   `json:"name"`
	Pos         string   `json:"pos"`
	Status      string   `json:"status"` // proved | failed | missing
	Obligations int      `json:"obligations"`
	Discharged  int      `json:"discharged"`
	Passes      int      `json:"passes"`
	OutOfSubset []string `json:"out_of_subset,omitempty"`
	Uncontract  []string `json:"uncontracted_calls,omitempty"`
	Inlined     []string `json:"inlined,omitempty"`
	EffectFree  []string `json:"inferred_effect_free,omitempty"`
	ModuloReal  bool     `json:"modulo_real,omitempty"`
}

func oblOK(o *Obligation) bool {
	if o.ExpectFail {
		return o.Status == "sat"
	}
	return o.Status == "unsat"
}

// unitsFor returns the units (functions under contract, lemmas) serving property id.
func unitsFor(prog *Program, id string, tier string) []*Unit {
	// panic-freedom obligations ("nopanic" functions) belong to C07 only: they are generated when C07 is checked (and
	// by the developer command `verify`), not when the same functions are verified for another property
	activeProperty = id
	var units []*Unit
	serves := func(ps []string) bool {
		for _, p := range ps {
			if p == id {
				return true
			}
		}
		return false
	}
	for _, k := range prog.SortedContractKeys() {
		ct := prog.Contracts[k]
		if ct.Trusted || strings.HasPrefix(ct.FuncName, "iface ") || strings.HasPrefix(ct.FuncName, "field ") {
			continue
		}
		if !serves(ct.Props) {
			continue
		}
		if ct.Thorough && tier != "thorough" {
			continue
		}
		units = append(units, prog.VerifyContract(ct, tier))
	}
	if id == "C25" {
		// lock discipline: a sweep unit for every function that touches a guarded field
		sw := prog.lockSweepContracts()
		sort.Slice(sw, func(i, j int) bool { return sw[i].Pkg+sw[i].FuncName < sw[j].Pkg+sw[j].FuncName })
		for _, ct := range sw {
			units = append(units, prog.VerifyContract(ct, tier))
		}
	}
	for _, l := range prog.Lemmas {
		if serves(l.Props) {
			units = append(units, prog.VerifyLemma(l, tier))
		}
	}
	return units
}

func cmdCheck(args []string) {
	fs := flag.NewFlagSet("check", flag.ExitOnError)
	prop := fs.String("property", "", "property id")
	tier := fs.String("tier", "quick", "quick|thorough")
	replayFile := fs.String("replay", "", "re-run the replay recorded in this file")
	fs.Parse(args)
	if *replayFile != "" {
		os.Exit(replayFromFile(*replayFile))
	}
	if *prop == "" {
		fmt.Println("check: --property required")
		os.Exit(2)
	}
	id := *prop
	seed := 0
	if s := os.Getenv("VERIF_SEED"); s != "" {
		seed, _ = strconv.Atoi(s)
	}
	t0 := time.Now()
	prog, err := LoadProgram(repoDir(), allPatterns(), nil, filepath.Join(verifDir, "govc", "lib"))
	if err != nil {
		// the repository does not type-check or a contract file does not parse: not a verdict
		fmt.Println("govc: cannot load:", err)
		os.Exit(2)
	}
	loadS := time.Since(t0).Seconds()
	units := unitsFor(prog, id, *tier)
	if len(units) == 0 {
		fmt.Printf("govc: no function under contract serves %s\n", id)
		os.Exit(2)
	}
	scratch, _ := os.MkdirTemp("", "govc-"+id+"-")
	defer os.RemoveAll(scratch)
	var all []*Obligation
	specErrs := 0
	for _, u := range units {
		u.Ctx.prepare()
		for _, o := range u.Obls {
			if servesProperty(o, id) {
				all = append(all, o)
			}
		}
		seenErr := map[string]bool{}
		for _, e := range u.Errors {
			if seenErr[e] {
				continue
			}
			seenErr[e] = true
			// a clause that no longer evaluates against the code (a local or field it names is gone): the proof that
			// discharged on the unchanged tree does not apply any more; reported as a failed obligation of that function
			fmt.Printf("govc: contract clause cannot be evaluated in %s: %s\n", u.Name, e)
			specErrs++
			u.Obls = append(u.Obls, &Obligation{Name: fmt.Sprintf("%s/contract#%d", u.Name, specErrs), Func: u.Name, Kind: "contract",
				Status: "unevaluable", Src: e, Props: []string{id}})
		}
	}
	quickCap, fullCap := 3, 10
	if *tier == "thorough" {
		quickCap, fullCap = 5, 60
	}
	known := loadKnownFindings(filepath.Join(verifDir, "KNOWN_FINDINGS.txt"))
	for _, u := range units {
		u.Ctx.noAssume = map[string]bool{}
		for _, k := range known {
			if !k.Fixed {
				u.Ctx.noAssume[k.Obligation] = true
			}
		}
	}
	t1 := time.Now()
	SolveAll(all, scratch, 14, quickCap, fullCap, *tier == "thorough")
	// second chance for obligations that were not decided within the cap (a loaded machine must not turn into an
	// alarm): fewer solver processes at a time, a much longer cap. Recorded known findings are not retried.
	var retry []*Obligation
	for _, o := range all {
		if (o.Status == "timeout" || o.Status == "unknown") && !u0noAssume(units, o.Name) {
			o.Status, o.Solver, o.Output = "", "", ""
			retry = append(retry, o)
		}
	}
	if len(retry) > 0 {
		fmt.Printf("govc: %d obligation(s) undecided within %ds, retrying with a %ds cap\n", len(retry), fullCap, fullCap*8)
		SolveAll(retry, scratch, 5, fullCap, fullCap*8, false)
	}
	solveS := time.Since(t1).Seconds()

	isKnown := func(name string) *knownFinding {
		for i := range known {
			k := &known[i]
			if !k.Fixed && k.Property == id && k.Obligation == name {
				return k
			}
		}
		return nil
	}

	os.MkdirAll(filepath.Join(evidenceDir(), "replays"), 0o755)
	var violations []string
	engineErr := false
	discharged, total, knownCount := 0, 0, 0
	bySolver := map[string]map[string]interface{}{}
	var samples []sampleObl
	var funcs []funcEvidence
	trusted := map[string]bool{}
	uncontracted := map[string]bool{}
	moduloReal := 0
	var knownLines []string
	for _, u := range units {
		fe := funcEvidence{Name: u.Name, Pos: u.Pos, Passes: u.Passes, Status: "proved", OutOfSubset: u.Ctx.outOfSubset}
		for k := range u.Ctx.trustedUsed {
			trusted[k] = true
		}
		for k := range u.Ctx.uncontracted {
			uncontracted[k] = true
			fe.Uncontract = append(fe.Uncontract, k)
		}
		for k := range u.Ctx.inlined {
			fe.Inlined = append(fe.Inlined, k)
		}
		for k := range u.Ctx.effectFreeUsed {
			fe.EffectFree = append(fe.EffectFree, k)
		}
		sort.Strings(fe.EffectFree)
		sort.Strings(fe.Uncontract)
		sort.Strings(fe.Inlined)
		fe.ModuloReal = u.Ctx.usesReal
		if u.Missing {
			fe.Status = "missing"
		}
		for _, o := range u.Obls {
			if !servesProperty(o, id) {
				continue
			}
			if kf := isKnown(o.Name); kf != nil {
				knownCount++
				if oblOK(o) {
					// a recorded finding that no longer fails: report, but it is not a violation
					fmt.Printf("NOTE: known finding no longer reproduces: property=%s obligation=%s\n", id, o.Name)
				} else {
					line := fmt.Sprintf("KNOWN-FINDING: property=%s %s (obligation %s)", id, kf.Text, o.Name)
					knownLines = append(knownLines, line)
					fmt.Println(line)
				}
				continue
			}
			total++
			fe.Obligations++
			if o.Tags["real"] || (u.Ctx.usesReal && strings.Contains(o.Goal.S+o.Guard.S, "realval")) {
				moduloReal++
			}
			if o.Solver != "" {
				m := bySolver[o.Solver]
				if m == nil {
					m = map[string]interface{}{"count": 0, "ms": int64(0)}
					bySolver[o.Solver] = m
				}
				m["count"] = m["count"].(int) + 1
				m["ms"] = m["ms"].(int64) + o.Ms
			}
			if len(samples) < 6 || (!oblOK(o) && len(samples) < 12) {
				samples = append(samples, sampleObl{o.Name, o.Kind, o.Src, o.Pos, o.Status, o.Solver, o.Ms, o.NHyp, o.Size})
			}
			if oblOK(o) {
				discharged++
				fe.Discharged++
				continue
			}
			fe.Status = "failed"
			if o.Status == "error" {
				engineErr = true
				fmt.Printf("govc: engine error on %s: %s\n", o.Name, firstLines(o.Output, 3))
				continue
			}
			rp := reportViolation(prog, id, o, u)
			violations = append(violations, rp)
		}
		funcs = append(funcs, fe)
	}
	wall := time.Since(t0).Seconds()

	var trustedList, uncList []string
	for k := range trusted {
		trustedList = append(trustedList, "assumed contract: "+k)
	}
	for k := range uncontracted {
		uncList = append(uncList, k)
	}
	sort.Strings(trustedList)
	sort.Strings(uncList)
	trustedBase := append([]string{
		"govc translation of go/ssa to SMT (this engine), see DESIGN.md §2",
		"SMT solvers z3 5.1.0 (z3-new), z3 4.8.12, cvc5 1.0",
		"built-in models of math/big (Int exact; Float/Rat as exact reals: A-REAL), sync (no blocking), encoding/binary",
	}, trustedList...)
	assumptions := []string{
		"termination is not proved (partial correctness)",
		"a panic ends the path unless the function is marked nopanic",
		"slice capacity aliasing is not modelled: append always yields a fresh backing array (A-APPEND)",
		"mutex blocking and goroutine interleavings are not modelled",
		"machine integers are modelled exactly with wrap-around; *big.Int as mathematical integers",
	}
	if moduloReal > 0 {
		assumptions = append(assumptions, fmt.Sprintf("%d obligation(s) hold modulo A-REAL: big.Float/big.Rat/float64 arithmetic treated as exact real arithmetic", moduloReal))
	}
	for _, u := range uncList {
		assumptions = append(assumptions, "uncontracted call (havocs everything): "+u)
	}
	ev := map[string]interface{}{
		"property_id": id,
		"tier":        *tier,
		"seed":        seed,
		"level":       "proof",
		"coverage": map[string]interface{}{
			"obligations":              total,
			"discharged":               discharged,
			"checker_cmd":              fmt.Sprintf("/verif/check %s %s", id, *tier),
			"trusted_base":             trustedBase,
			"functions_under_contract": funcs,
			"by_solver":                bySolver,
			"samples":                  samples,
			"modulo_real":              moduloReal,
			"known_finding_obligations": knownCount,
			"known_findings":           knownLines,
			"uncovered":                uncoveredText(id),
			"load_s":                   loadS,
			"solve_s":                  solveS,
			"explanation":              "obligations = proof goals generated from /repo's current source for the functions under contract that serve this property (postconditions, loop invariants, call-site preconditions, frame conditions, panic sites, vacuity covers); discharged = decided by an SMT solver (unsat, or sat for cover probes). Obligations recorded in KNOWN_FINDINGS.txt are counted separately.",
		},
		"assumptions": assumptions,
		"wall_s":      wall,
		"violations":  len(violations),
	}
	b, _ := json.MarshalIndent(ev, "", " ")
	os.WriteFile(filepath.Join(evidenceDir(), id+".json"), b, 0o644)

	fmt.Printf("govc: property %s tier %s: %d units, %d/%d obligations discharged, %d known finding(s), %d violation(s), %.1fs (load %.1fs, solve %.1fs)\n",
		id, *tier, len(units), discharged, total, len(knownLines), len(violations), wall, loadS, solveS)
	os.RemoveAll(scratch) // os.Exit below skips the deferred removal
	if engineErr {
		os.Exit(2)
	}
	if len(violations) > 0 {
		os.Exit(1)
	}
	os.Exit(0)
}

func u0noAssume(units []*Unit, name string) bool {
	for _, u := range units {
		if u.Ctx != nil && u.Ctx.noAssume[name] {
			return true
		}
	}
	return false
}

// servesProperty: a clause tagged with property ids ([C26]) yields obligations only for those properties; untagged
// clauses serve every property of their function.
func servesProperty(o *Obligation, id string) bool {
	tagged := false
	for t := range o.Tags {
		if len(t) >= 3 && t[0] == 'C' && t[1] >= '0' && t[1] <= '9' {
			tagged = true
			if t == id {
				return true
			}
		}
	}
	return !tagged
}

func firstLines(s string, n int) string {
	ls := strings.Split(strings.TrimSpace(s), "\n")
	if len(ls) > n {
		ls = ls[:n]
	}
	return strings.Join(ls, " | ")
}

// reportViolation writes the replay file, tries to replay the model on the real code and prints the VIOLATION line.
func reportViolation(prog *Program, id string, o *Obligation, u *Unit) string {
	path := filepath.Join(evidenceDir(), "replays", id+"-"+sanitize(o.Name)+".json")
	reason := ""
	switch o.Status {
	case "sat":
		reason = "solver found a counterexample to the obligation"
	case "unknown", "timeout":
		reason = "solver-undecided: the obligation discharged on the unchanged tree and no longer does"
	case "unevaluable":
		reason = "a contract clause (invariant or pre/postcondition) names a variable, field or type the code no longer has: the proof that discharged on the unchanged tree does not apply to this code"
	}
	if o.ExpectFail {
		reason = "vacuity: no normal return of the function is reachable under its preconditions any more"
	}
	if o.Kind == "exists" {
		reason = "function under contract no longer exists (or has no body)"
	}
	rec := map[string]interface{}{
		"property":   id,
		"obligation": o.Name,
		"kind":       o.Kind,
		"function":   o.Func,
		"source":     o.Src,
		"position":   o.Pos,
		"status":     o.Status,
		"solver":     o.Solver,
		"reason":     reason,
		"solver_output": firstLines(o.Output, 40),
		"model":      o.Model,
	}
	confirmed := false
	if o.Status == "sat" && !o.ExpectFail {
		rr := tryReplay(prog, o, u)
		rec["replay"] = rr
		confirmed = rr.Confirmed
	}
	b, _ := json.MarshalIndent(rec, "", " ")
	os.WriteFile(path, b, 0o644)
	suffix := ""
	if !confirmed {
		suffix = " no-failing-input-found"
	}
	fmt.Printf("  failed obligation: %s  [%s]  %s\n    %s\n", o.Name, o.Pos, o.Status, o.Src)
	fmt.Printf("VIOLATION property=%s replay=%s%s\n", id, path, suffix)
	return path
}

func replayFromFile(path string) int {
	b, err := os.ReadFile(path)
	if err != nil {
		fmt.Println(err)
		return 2
	}
	var rec map[string]interface{}
	if err := json.Unmarshal(b, &rec); err != nil {
		fmt.Println(err)
		return 2
	}
	fmt.Printf("obligation: %v\nsource: %v\nposition: %v\nstatus: %v\nreason: %v\n", rec["obligation"], rec["source"], rec["position"], rec["status"], rec["reason"])
	if rp, ok := rec["replay"].(map[string]interface{}); ok {
		if src, ok := rp["test_source"].(string); ok && src != "" {
			pkgDir, _ := rp["package_dir"].(string)
			out, failed := runReplayTest(pkgDir, src, rp["test_name"].(string))
			fmt.Println(out)
			if failed {
				fmt.Println("replay: the real code violates the obligation on this input")
				return 1
			}
			fmt.Println("replay: not reproduced on the current tree")
			return 0
		}
	}
	fmt.Println("no replayable input recorded (no-failing-input-found); solver output:")
	fmt.Println(rec["solver_output"])
	return 1
}

// evidenceDir is /verif/evidence; the development tools that run a check against a deliberately changed tree
// (tools/try_seed.sh) point GOVC_EVIDENCE_DIR at a scratch directory so that the committed evidence always
// describes the unchanged tree.
func evidenceDir() string {
	if d := os.Getenv("GOVC_EVIDENCE_DIR"); d != "" {
		return d
	}
	return filepath.Join(verifDir, "evidence")
}

func uncoveredText(id string) string {
	b, err := os.ReadFile(filepath.Join(verifDir, "govc", "uncovered.json"))
	if err != nil {
		return ""
	}
	var m map[string]string
	if json.Unmarshal(b, &m) != nil {
		return ""
	}
	return m[id]
}

