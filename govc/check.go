package main

func cmdCheck(args []string)    {}
func cmdSelftest(args []string) {}
