package main

// Lock discipline (C25): a ghost lock-set and "guarded by" obligations.
//
// The lock-set is a family of ghost heaps  lock!w!<mutex family>  and  lock!r!<mutex family>  (Array Int Bool) indexed by
// the object that holds the mutex; sync.Mutex / sync.RWMutex Lock, Unlock, RLock, RUnlock update it. A contract file
// declares   //@ guarded T.f by mu   and every load / store of field f of a T, and every map or slice operation on the
// value loaded from it, gets the obligation "T.mu is held here" (read or write lock for reads, write lock for writes).
// Helper functions that are only called with the lock held say so in a precondition (held(x.mu) / wheld(x.mu)), which
// is then an obligation at their call sites.
//
// Assumptions (stated in the evidence): callees and loop bodies are lock-balanced (the lock-set is not havocked at
// calls without a contract nor at loop heads); a value loaded from a guarded field is followed only syntactically
// (through the SSA value, not through copies into other variables, fields or callees); blocking, re-entrancy and
// lock ordering are not modelled.

import (
	"fmt"
	"go/token"
	"go/types"
	"strings"

	"golang.org/x/tools/go/ssa"
)

type guardInfo struct {
	desc string // "Type.field"
	fam  string // mutex family
	idx  *Term  // owner
}

// lockFamOfLoc names the mutex stored at a location: (family, owner index).
func (c *Ctx) lockFamOfLoc(l *Loc) (string, *Term, bool) {
	switch l.Kind {
	case LCell:
		if len(l.Idx) == 1 {
			return sanitize(l.Name), l.Idx[0], true
		}
		if len(l.Idx) == 0 {
			return sanitize(l.Name), intLit(0), true
		}
	case LProj:
		if l.Parent != nil && l.Index == nil {
			if l.Parent.Kind == LRefStruct {
				return sanitize(c.fieldArrayName(l.Parent.Elem, l.Field)), l.Parent.Ref, true
			}
			pn, pi, ok := c.lockFamOfLoc(l.Parent)
			if ok {
				return fmt.Sprintf("%s.f%d", pn, l.Field), pi, true
			}
		}
	}
	return "", nil, false
}

// lockFamOfVal: the mutex a pointer value (the receiver of Lock/Unlock) denotes.
func (c *Ctx) lockFamOfVal(v Val) (string, *Term, bool) {
	if v.T != nil {
		return "ptr", v.T, true
	}
	if v.Loc != nil {
		return c.lockFamOfLoc(v.Loc)
	}
	return "", nil, false
}

func (c *Ctx) lockHeaps(fam string) (w, r string) {
	w = c.heapName("lock!w!"+fam, ArrSort(SInt, SBool))
	r = c.heapName("lock!r!"+fam, ArrSort(SInt, SBool))
	return
}

// lockOp updates the lock-set for a call of a sync.Mutex / sync.RWMutex method.
func (fr *Frame) lockOp(method string, recv Val, st *State, g *Term, site ssa.Instruction) {
	c := fr.c
	if !c.lockCheck {
		return
	}
	fam, idx, ok := c.lockFamOfVal(recv)
	if !ok {
		c.warn("lock operation %s on a mutex that cannot be named", method)
		return
	}
	w, r := c.lockHeaps(fam)
	set := func(h string, v *Term) { c.heapSet(st, h, tStore(c.heapGet(st, h), idx, v)) }
	// acquired-on-this-path: starts empty at the entry of the unit (a definition, not an assumption about callers)
	acq := c.heapName("lock!a!"+fam, ArrSort(SInt, SBool))
	a0 := sanitize(acq) + "@0"
	if !c.acqInit[a0] {
		if c.acqInit == nil {
			c.acqInit = map[string]bool{}
		}
		c.acqInit[a0] = true
		c.declare(a0, ArrSort(SInt, SBool))
		c.asserts = append(c.asserts, &Assertion{Seq: 0, Always: true, Text: fmt.Sprintf("(= %s ((as const (Array Int Bool)) false))", a0)})
	}
	switch method {
	case "Lock", "RLock":
		defer set(acq, tTrue)
	case "Unlock", "RUnlock":
		defer set(acq, tFalse)
	}
	synKey := "syn|" + fam + "|" + idx.S
	seenBefore := c.acqInit[synKey]
	if method == "Lock" || method == "RLock" {
		c.acqInit[synKey] = true
	}
	// (only when the very same mutex term has been acquired before in this unit: two different fields of one object, or
	// two objects the solver cannot tell apart, are not reported as re-entrant on the strength of "may alias")
	if (method == "Lock" || method == "RLock") && g != nil && seenBefore {
		// sync mutexes are not re-entrant: acquiring one that this path already holds (read or write) blocks for ever
		// once a writer is waiting (RLock inside RLock) or at once (Lock inside anything). "Already holds" is decidable
		// only for acquisitions made on this path: at entry a unit is assumed to hold nothing but its #lockpre locks.
		n := c.nguard
		c.nguard++
		pos := ""
		if site != nil {
			pos = c.posOf(site.Pos())
		}
		c.oblige(&Obligation{Name: fmt.Sprintf("%s/guard#reentrant.%d", c.unitName, n), Func: c.unitName, Kind: "guard",
			Guard: g, Goal: tNot(tSelect(c.heapGet(st, acq), idx)), Pos: pos,
			Src: "the mutex being acquired (" + method + ") is not already held on this path", Tags: map[string]bool{"C25": true}})
	}
	switch method {
	case "Lock":
		set(w, tTrue)
	case "Unlock":
		set(w, tFalse)
	case "RLock":
		set(r, tTrue)
	case "RUnlock":
		set(r, tFalse)
	}
}

// heldTerm: the mutex (fam, idx) is held (write lock, or read lock too when !write) in st.
func (c *Ctx) heldTerm(st *State, fam string, idx *Term, write bool) *Term {
	w, r := c.lockHeaps(fam)
	hw := tSelect(c.heapGet(st, w), idx)
	if write {
		return hw
	}
	return mk(SBool, fmt.Sprintf("(or %s %s)", hw.S, tSelect(c.heapGet(st, r), idx).S))
}

func (p *Program) guardDecl(t types.Type, field int) *GuardDecl {
	if len(p.Guards) == 0 {
		return nil
	}
	nt, ok := t.(*types.Named)
	if !ok || nt.Obj().Pkg() == nil {
		return nil
	}
	st, ok := nt.Underlying().(*types.Struct)
	if !ok || field >= st.NumFields() {
		return nil
	}
	fname := st.Field(field).Name()
	for _, gd := range p.Guards {
		if gd.Type == nt.Obj().Name() && gd.Field == fname && gd.Pkg == nt.Obj().Pkg().Path() {
			return gd
		}
	}
	return nil
}

// guardOfFieldAddr: if fa addresses a guarded field, the mutex that guards it (named in the current state).
func (fr *Frame) guardOfFieldAddr(fa *ssa.FieldAddr, st *State) *guardInfo {
	c := fr.c
	pt, ok := fa.X.Type().Underlying().(*types.Pointer)
	if !ok {
		return nil
	}
	gd := c.prog.guardDecl(pt.Elem(), fa.Field)
	if gd == nil {
		return nil
	}
	su := pt.Elem().Underlying().(*types.Struct)
	lockIdx := -1
	for i := 0; i < su.NumFields(); i++ {
		if su.Field(i).Name() == gd.Lock {
			lockIdx = i
		}
	}
	desc := gd.Type + "." + gd.Field
	if lockIdx < 0 {
		c.specErrors = append(c.specErrors, fmt.Sprintf("%s:%d: guarded %s: no field %s", gd.File, gd.Line, desc, gd.Lock))
		return nil
	}
	base := fr.get(fa.X)
	ploc := c.derefLoc(base, fa.X.Type())
	if ploc.Kind == LRefStruct {
		if _, own := c.allocOf[ploc.Ref.S]; own {
			// an object this function has just allocated (a constructor filling in its fields): not shared yet
			return nil
		}
	}
	var lockLoc *Loc
	if ploc.Kind == LRefStruct {
		lockLoc = &Loc{Kind: LCell, Name: c.fieldArrayName(pt.Elem(), lockIdx), Idx: []*Term{ploc.Ref}, Elem: su.Field(lockIdx).Type()}
	} else {
		lockLoc = &Loc{Kind: LProj, Parent: ploc, Field: lockIdx, Elem: su.Field(lockIdx).Type()}
	}
	if _, isPtr := su.Field(lockIdx).Type().Underlying().(*types.Pointer); isPtr {
		return &guardInfo{desc: desc, fam: "ptr", idx: c.load(st, lockLoc)}
	}
	fam, idx, ok := c.lockFamOfLoc(lockLoc)
	if !ok {
		c.warn("guarded %s: mutex cannot be named", desc)
		return nil
	}
	return &guardInfo{desc: desc, fam: fam, idx: idx}
}

func (fr *Frame) obligeHeld(gi *guardInfo, write bool, st *State, g *Term, pos token.Pos, what string) {
	c := fr.c
	if !c.lockCheck || gi == nil {
		return
	}
	n := c.nguard
	c.nguard++
	mode := "read"
	if write {
		mode = "write"
	}
	c.oblige(&Obligation{Name: fmt.Sprintf("%s/guard#%s.%d", c.unitName, gi.desc, n), Func: c.unitName, Kind: "guard",
		Guard: g, Goal: c.heldTerm(st, gi.fam, gi.idx, write), Pos: c.posOf(pos),
		Src: fmt.Sprintf("%s of %s: the guarding mutex is held (%s)", what, gi.desc, mode), Tags: map[string]bool{"C25": true}})
}

// guardLoadStore is called for a load from / store to addr.
func (fr *Frame) guardLoadStore(addr ssa.Value, loaded ssa.Value, write bool, st *State, g *Term, pos token.Pos) {
	c := fr.c
	if len(c.prog.Guards) == 0 {
		return
	}
	fa, ok := addr.(*ssa.FieldAddr)
	if !ok {
		return
	}
	gi := fr.guardOfFieldAddr(fa, st)
	if gi == nil {
		return
	}
	what := "load"
	if write {
		what = "store"
	}
	fr.obligeHeld(gi, write, st, g, pos, what)
	if loaded != nil {
		if fr.guardOf == nil {
			fr.guardOf = map[ssa.Value]*guardInfo{}
		}
		fr.guardOf[loaded] = gi
	}
}

// guardUse is called for an operation on a map / slice value: if the value was loaded from a guarded field, the mutex
// must (still) be held.
func (fr *Frame) guardUse(v ssa.Value, write bool, st *State, g *Term, pos token.Pos, what string) {
	if fr.guardOf == nil {
		return
	}
	if gi := fr.guardOf[v]; gi != nil {
		fr.obligeHeld(gi, write, st, g, pos, what)
	}
}

// touchesGuarded reports whether fn's own body addresses a guarded field.
func (p *Program) touchesGuarded(fn *ssa.Function) bool {
	for _, b := range fn.Blocks {
		for _, ins := range b.Instrs {
			if fa, ok := ins.(*ssa.FieldAddr); ok {
				if pt, ok := fa.X.Type().Underlying().(*types.Pointer); ok && p.guardDecl(pt.Elem(), fa.Field) != nil {
					return true
				}
			}
			// a function that acquires a mutex itself is swept too (re-entrant acquisition through inlined callees)
			if call, ok := ins.(ssa.CallInstruction); ok {
				if callee := call.Common().StaticCallee(); callee != nil {
					switch callee.String() {
					case "(*sync.Mutex).Lock", "(*sync.RWMutex).Lock", "(*sync.RWMutex).RLock":
						return true
					}
				}
			}
		}
	}
	return false
}

// lockSweepContracts: one synthetic contract per function of the guarded packages whose body touches a guarded field;
// it inherits the lock preconditions (requires mentioning held/wheld) of the function's real contract, if any.
func (p *Program) lockSweepContracts() []*Contract {
	var out []*Contract
	pkgs := map[string]bool{}
	for _, gd := range p.Guards {
		pkgs[gd.Pkg] = true
	}
	for key, fn := range p.Funcs {
		if fn.Blocks == nil || fn.Pkg == nil || !pkgs[fn.Pkg.Pkg.Path()] {
			continue
		}
		if !p.touchesGuarded(fn) {
			continue
		}
		i := strings.Index(key, "::")
		ct := &Contract{Pkg: key[:i], FuncName: key[i+2:], Alt: "locks", LockOnly: true, Props: []string{"C25"}}
		if real := p.Contracts[key+"#lockpre"]; real != nil {
			// "func F #lockpre": the locks F expects its callers to hold (an obligation at every call site of F in the
			// sweep, an assumption inside F's own sweep unit)
			ct.File, ct.Line = real.File, real.Line
			ct.Requires = append(ct.Requires, real.Requires...)
			ct.Lets = real.Lets
		}
		out = append(out, ct)
	}
	return out
}

// obligeLockPre: the callee has a "#lockpre" contract: its preconditions are obligations of this call site.
func (fr *Frame) obligeLockPre(lp *Contract, fn *ssa.Function, args []Val, st *State, g *Term, site ssa.Instruction) {
	c := fr.c
	e := c.contractEnv(lp, fn.Signature, nil, args, c.pkgOfContract(lp), st.clone(), nil)
	for k, r := range lp.Requires {
		goal := c.safeEvalBool(e, r)
		key := lp.FuncName + ".lock" + clauseLabel(r, k)
		n := c.preCount[key]
		c.preCount[key] = n + 1
		pos := ""
		if site != nil {
			pos = c.posOf(site.Pos())
		}
		c.oblige(&Obligation{Name: fmt.Sprintf("%s/pre#%s@%d", c.unitName, key, n), Func: c.unitName, Kind: "pre",
			Guard: g, Goal: goal, Pos: pos, Src: "requires of " + lp.FuncName + ": " + r.Src, Tags: map[string]bool{"C25": true}})
	}
}

// implementsTerm: the non-nil interface value v has a dynamic type that implements interface type it.
func (c *Ctx) implementsTerm(v *Term, it types.Type) *Term {
	c.declareFun("itag", []Sort{SInt}, SInt)
	fn := "impl!" + typeName(it)
	c.declareFun(fn, []Sort{SInt}, SBool)
	return mk(SBool, fmt.Sprintf("(and (not (= %s 0)) (%s (itag %s)))", v.S, fn, v.S))
}
