package main

import (
	"fmt"
	"strings"
	"unicode"
)

// ---------- expression AST of the contract language ----------

type Expr interface{ exprNode() }

type (
	EIdent struct{ Name string }
	EInt   struct{ V string }
	EBool  struct{ V bool }
	ENil   struct{}
	EStr   struct{ V string }
	EUn    struct {
		Op string
		X  Expr
	}
	EBin struct {
		Op   string
		L, R Expr
	}
	ECall struct {
		Fn   string
		Args []Expr
	}
	ESel struct {
		X    Expr
		Name string
	}
	EIdx struct {
		X, I Expr
	}
	ECond struct {
		C, A, B Expr
	}
	EOld   struct{ X Expr }
	EQuant struct {
		Forall bool
		Vars   []QVar
		Body   Expr
	}
)

type QVar struct {
	Name string
	Type string // "int", "bool", "real" or a Go type name resolvable in the package
}

func (*EIdent) exprNode() {}
func (*EInt) exprNode()   {}
func (*EBool) exprNode()  {}
func (*ENil) exprNode()   {}
func (*EStr) exprNode()   {}
func (*EUn) exprNode()    {}
func (*EBin) exprNode()   {}
func (*ECall) exprNode()  {}
func (*ESel) exprNode()   {}
func (*EIdx) exprNode()   {}
func (*ECond) exprNode()  {}
func (*EOld) exprNode()   {}
func (*EQuant) exprNode() {}

// ---------- lexer ----------

type tok struct {
	kind string // id, int, str, op, eof
	s    string
}

func lexExpr(src string) ([]tok, error) {
	var out []tok
	i := 0
	for i < len(src) {
		c := src[i]
		switch {
		case c == ' ' || c == '\t':
			i++
		case unicode.IsLetter(rune(c)) || c == '_' || c == '$':
			j := i
			for j < len(src) && (unicode.IsLetter(rune(src[j])) || unicode.IsDigit(rune(src[j])) || src[j] == '_' || src[j] == '$') {
				j++
			}
			out = append(out, tok{"id", src[i:j]})
			i = j
		case c >= '0' && c <= '9':
			j := i
			for j < len(src) && (src[j] >= '0' && src[j] <= '9' || src[j] == '_') {
				j++
			}
			num := strings.ReplaceAll(src[i:j], "_", "")
			// e-notation: 1e18
			if j < len(src) && src[j] == 'e' {
				k := j + 1
				for k < len(src) && src[k] >= '0' && src[k] <= '9' {
					k++
				}
				if k > j+1 {
					n := 0
					fmt.Sscanf(src[j+1:k], "%d", &n)
					num += strings.Repeat("0", n)
					j = k
				}
			}
			out = append(out, tok{"int", num})
			i = j
		case c == '"':
			j := i + 1
			for j < len(src) && src[j] != '"' {
				j++
			}
			if j >= len(src) {
				return nil, fmt.Errorf("unterminated string")
			}
			out = append(out, tok{"str", src[i+1 : j]})
			i = j + 1
		default:
			ops := []string{"<==>", "==>", "::", "==", "!=", "<=", ">=", "&&", "||", "(", ")", "[", "]", ".", ",", "?", ":", "+", "-", "*", "/", "%", "<", ">", "!"}
			found := false
			for _, op := range ops {
				if strings.HasPrefix(src[i:], op) {
					out = append(out, tok{"op", op})
					i += len(op)
					found = true
					break
				}
			}
			if !found {
				return nil, fmt.Errorf("unexpected character %q in %q", c, src)
			}
		}
	}
	out = append(out, tok{"eof", ""})
	return out, nil
}

type eparser struct {
	toks []tok
	p    int
}

func (p *eparser) peek() tok { return p.toks[p.p] }
func (p *eparser) next() tok { t := p.toks[p.p]; p.p++; return t }
func (p *eparser) accept(op string) bool {
	if p.peek().kind == "op" && p.peek().s == op {
		p.p++
		return true
	}
	return false
}
func (p *eparser) expect(op string) error {
	if !p.accept(op) {
		return fmt.Errorf("expected %q, got %q", op, p.peek().s)
	}
	return nil
}

func ParseExpr(src string) (e Expr, err error) {
	toks, err := lexExpr(src)
	if err != nil {
		return nil, err
	}
	p := &eparser{toks: toks}
	e, err = p.parseImp()
	if err != nil {
		return nil, fmt.Errorf("%v in %q", err, src)
	}
	if p.peek().kind != "eof" {
		return nil, fmt.Errorf("trailing %q in %q", p.peek().s, src)
	}
	return e, nil
}

// precedence (low→high): <==>  ==> (right)  ?:  ||  &&  cmp  + -  * / %  unary  postfix
func (p *eparser) parseImp() (Expr, error) {
	l, err := p.parseCond()
	if err != nil {
		return nil, err
	}
	if p.accept("==>") {
		r, err := p.parseImp()
		if err != nil {
			return nil, err
		}
		return &EBin{"==>", l, r}, nil
	}
	if p.accept("<==>") {
		r, err := p.parseImp()
		if err != nil {
			return nil, err
		}
		return &EBin{"<==>", l, r}, nil
	}
	return l, nil
}

func (p *eparser) parseCond() (Expr, error) {
	c, err := p.parseOr()
	if err != nil {
		return nil, err
	}
	if p.accept("?") {
		a, err := p.parseCond()
		if err != nil {
			return nil, err
		}
		if err := p.expect(":"); err != nil {
			return nil, err
		}
		b, err := p.parseCond()
		if err != nil {
			return nil, err
		}
		return &ECond{c, a, b}, nil
	}
	return c, nil
}

func (p *eparser) parseOr() (Expr, error) {
	l, err := p.parseAnd()
	if err != nil {
		return nil, err
	}
	for p.accept("||") {
		r, err := p.parseAnd()
		if err != nil {
			return nil, err
		}
		l = &EBin{"||", l, r}
	}
	return l, nil
}

func (p *eparser) parseAnd() (Expr, error) {
	l, err := p.parseCmp()
	if err != nil {
		return nil, err
	}
	for p.accept("&&") {
		r, err := p.parseCmp()
		if err != nil {
			return nil, err
		}
		l = &EBin{"&&", l, r}
	}
	return l, nil
}

func (p *eparser) parseCmp() (Expr, error) {
	l, err := p.parseAddE()
	if err != nil {
		return nil, err
	}
	// allow chains a <= b < c
	var res Expr
	for {
		t := p.peek()
		if t.kind == "op" && (t.s == "==" || t.s == "!=" || t.s == "<" || t.s == "<=" || t.s == ">" || t.s == ">=") {
			p.next()
			r, err := p.parseAddE()
			if err != nil {
				return nil, err
			}
			c := &EBin{t.s, l, r}
			if res == nil {
				res = c
			} else {
				res = &EBin{"&&", res, c}
			}
			l = r
			continue
		}
		if t.kind == "id" && t.s == "in" {
			p.next()
			r, err := p.parseAddE()
			if err != nil {
				return nil, err
			}
			c := &EBin{"in", l, r}
			if res == nil {
				res = c
			} else {
				res = &EBin{"&&", res, c}
			}
			l = r
			continue
		}
		break
	}
	if res != nil {
		return res, nil
	}
	return l, nil
}

func (p *eparser) parseAddE() (Expr, error) {
	l, err := p.parseMulE()
	if err != nil {
		return nil, err
	}
	for {
		if p.accept("+") {
			r, err := p.parseMulE()
			if err != nil {
				return nil, err
			}
			l = &EBin{"+", l, r}
		} else if p.accept("-") {
			r, err := p.parseMulE()
			if err != nil {
				return nil, err
			}
			l = &EBin{"-", l, r}
		} else {
			return l, nil
		}
	}
}

func (p *eparser) parseMulE() (Expr, error) {
	l, err := p.parseUnary()
	if err != nil {
		return nil, err
	}
	for {
		var op string
		switch {
		case p.accept("*"):
			op = "*"
		case p.accept("/"):
			op = "/"
		case p.accept("%"):
			op = "%"
		default:
			return l, nil
		}
		r, err := p.parseUnary()
		if err != nil {
			return nil, err
		}
		l = &EBin{op, l, r}
	}
}

func (p *eparser) parseUnary() (Expr, error) {
	if p.accept("!") {
		x, err := p.parseUnary()
		if err != nil {
			return nil, err
		}
		return &EUn{"!", x}, nil
	}
	if p.accept("-") {
		x, err := p.parseUnary()
		if err != nil {
			return nil, err
		}
		return &EUn{"-", x}, nil
	}
	return p.parsePostfix()
}

func (p *eparser) parsePostfix() (Expr, error) {
	x, err := p.parsePrimary()
	if err != nil {
		return nil, err
	}
	for {
		switch {
		case p.accept("."):
			t := p.next()
			if t.kind != "id" {
				return nil, fmt.Errorf("expected field name after '.'")
			}
			// package-qualified call or method-like builtin: x.f(args)
			if p.peek().kind == "op" && p.peek().s == "(" {
				if id, ok := x.(*EIdent); ok {
					p.next()
					args, err := p.parseArgs()
					if err != nil {
						return nil, err
					}
					x = &ECall{Fn: id.Name + "." + t.s, Args: args}
					continue
				}
			}
			x = &ESel{x, t.s}
		case p.accept("["):
			i, err := p.parseImp()
			if err != nil {
				return nil, err
			}
			if err := p.expect("]"); err != nil {
				return nil, err
			}
			x = &EIdx{x, i}
		default:
			return x, nil
		}
	}
}

func (p *eparser) parseArgs() ([]Expr, error) {
	var args []Expr
	if p.accept(")") {
		return args, nil
	}
	for {
		a, err := p.parseImp()
		if err != nil {
			return nil, err
		}
		args = append(args, a)
		if p.accept(")") {
			return args, nil
		}
		if err := p.expect(","); err != nil {
			return nil, err
		}
	}
}

func (p *eparser) parsePrimary() (Expr, error) {
	t := p.next()
	switch t.kind {
	case "int":
		return &EInt{t.s}, nil
	case "str":
		return &EStr{t.s}, nil
	case "id":
		switch t.s {
		case "true":
			return &EBool{true}, nil
		case "false":
			return &EBool{false}, nil
		case "nil":
			return &ENil{}, nil
		case "forall", "exists":
			// forall i int, j int :: body
			var vars []QVar
			for {
				n := p.next()
				stars := ""
				for p.accept("*") {
					stars += "*"
				}
				ty := p.next()
				if n.kind != "id" || ty.kind != "id" {
					return nil, fmt.Errorf("bad quantifier variable")
				}
				tyname := stars + ty.s
				for p.accept(".") {
					tt := p.next()
					tyname += "." + tt.s
				}
				vars = append(vars, QVar{n.s, tyname})
				if p.accept(",") {
					continue
				}
				break
			}
			if err := p.expect("::"); err != nil {
				return nil, err
			}
			body, err := p.parseImp()
			if err != nil {
				return nil, err
			}
			return &EQuant{Forall: t.s == "forall", Vars: vars, Body: body}, nil
		}
		if p.peek().kind == "op" && p.peek().s == "(" {
			p.next()
			args, err := p.parseArgs()
			if err != nil {
				return nil, err
			}
			if t.s == "old" {
				if len(args) != 1 {
					return nil, fmt.Errorf("old takes one argument")
				}
				return &EOld{args[0]}, nil
			}
			return &ECall{Fn: t.s, Args: args}, nil
		}
		return &EIdent{t.s}, nil
	case "op":
		if t.s == "(" {
			e, err := p.parseImp()
			if err != nil {
				return nil, err
			}
			if err := p.expect(")"); err != nil {
				return nil, err
			}
			return e, nil
		}
	}
	return nil, fmt.Errorf("unexpected token %q", t.s)
}

// ---------- contract files ----------

type Clause struct {
	Label string
	Src   string
	E     Expr
	Tags  map[string]bool // e.g. "real" (modulo-real), "thorough"
	Line  int
	File  string
	// FromIface: imported from the interface contract the function implements. Assumed: an "assumes" clause, a
	// well-formedness assumption on the inputs that no caller is asked to establish (listed in the evidence).
	FromIface bool
	Assumed   bool
}

type LoopSpec struct {
	Invariants []*Clause
}

type Contract struct {
	FuncName string // as written: "(*PairV2).CalculateBuyForSell" or "calcCommission1000"
	Pkg      string // import path of the package owning the contract file
	Requires []*Clause
	Ensures  []*Clause
	Modifies []string // heap names / ghost names / "nothing" ; nil means unspecified (=> everything for callers if trusted)
	ModSet   bool
	NoPanic  bool
	NoPanicKinds []string // when non-empty: the only kinds of panic that "nopanic" turns into obligations
	LockOnly bool // synthetic lock-discipline sweep contract (C25): only guard obligations and lock preconditions count
	SplitRet bool // "splitreturns": one postcondition obligation per return point (as done automatically for > 6 returns)
	Trusted  bool // contract assumed, body not verified
	Inline   bool // always inline, ignoring size limit
	Thorough bool // only verified in the thorough tier
	Pure     bool // modifies nothing, result functional
	Loops    map[int]*LoopSpec
	Lets     []LetDef
	Props    []string // property ids this function's obligations serve (from "serves C13,C02")
	File     string
	Line     int
	PanicsOK map[string]bool
	Asserts  []*Clause // not used yet
	// Implements names interface contracts ("iface Data.Run") this method must satisfy: their requires may be relied on,
	// their ensures and modifies are checked against the body (behavioural subtyping).
	Implements []string
	implDone   bool
	Covers     []*Clause
	Locals     map[string]string
	// AssumesPre names callees ("CalculateSaleReturn", "(*Coins).SubVolume") whose preconditions are assumed, not proved, at
	// the call sites inside this function (a state invariant the function relies on); every use is listed in the trusted base.
	AssumesPre map[string]string
	Alt        string // non-empty: an additional contract ("func F #alt"), verified but not used by callers
	Skolems    []string
}

type LetDef struct {
	Name string
	E    Expr
}

type SpecFunc struct {
	Name   string
	Pkg    string
	Params []QVar
	Ret    string
	Body   Expr // nil => uninterpreted
	Src    string
	File   string
	Line   int
}

type GhostDecl struct {
	Name string
	Pkg  string
	Keys []QVar
	Ret  string
	// History: declared with "history name(...) T": a ghost that records an event of the current call (set only by an
	// assumed clause of the contract that performs the event); calls WITHOUT a contract are assumed not to perform the
	// event, so they leave it unchanged
	History bool
}

type Lemma struct {
	Name     string
	Pkg      string
	Vars     []QVar
	Requires []*Clause
	Ensures  []*Clause
	Props    []string
	File     string
	Line     int
}

type Axiom struct {
	Pkg string
	C   *Clause
}

type ContractFile struct {
	Pkg       string
	Contracts []*Contract
	Specs     []*SpecFunc
	Ghosts    []*GhostDecl
	Lemmas    []*Lemma
	Axioms    []*Axiom
	Guards    []*GuardDecl
}

// GuardDecl: field Type.Field of package Pkg may only be accessed with the mutex Type.Lock held.
type GuardDecl struct {
	Pkg, Type, Field, Lock string
	File                   string
	Line                   int
}

func parseClause(rest string, file string, line int) (*Clause, error) {
	c := &Clause{Tags: map[string]bool{}, Line: line, File: file}
	rest = strings.TrimSpace(rest)
	// optional tags in brackets: [real,thorough]
	for strings.HasPrefix(rest, "[") {
		j := strings.Index(rest, "]")
		if j < 0 {
			return nil, fmt.Errorf("%s:%d: bad tag", file, line)
		}
		for _, t := range strings.Split(rest[1:j], ",") {
			c.Tags[strings.TrimSpace(t)] = true
		}
		rest = strings.TrimSpace(rest[j+1:])
	}
	// optional label "name:" (identifier followed by ':' but not '::')
	if i := strings.Index(rest, ":"); i > 0 && !strings.HasPrefix(rest[i:], "::") {
		lab := rest[:i]
		ok := true
		for _, r := range lab {
			if !(unicode.IsLetter(r) || unicode.IsDigit(r) || r == '_' || r == '-') {
				ok = false
			}
		}
		if ok {
			c.Label = lab
			rest = strings.TrimSpace(rest[i+1:])
		}
	}
	c.Src = rest
	e, err := ParseExpr(rest)
	if err != nil {
		return nil, fmt.Errorf("%s:%d: %v", file, line, err)
	}
	c.E = e
	return c, nil
}

// splitTopLevel splits on commas that are not nested in parentheses or brackets.
func splitTopLevel(s string) []string {
	var out []string
	depth, start := 0, 0
	for i, r := range s {
		switch r {
		case '(', '[':
			depth++
		case ')', ']':
			depth--
		case ',':
			if depth == 0 {
				out = append(out, s[start:i])
				start = i + 1
			}
		}
	}
	return append(out, s[start:])
}

func parseQVars(s string) ([]QVar, error) {
	s = strings.TrimSpace(s)
	if s == "" {
		return nil, nil
	}
	var out []QVar
	for _, part := range strings.Split(s, ",") {
		f := strings.Fields(part)
		if len(f) != 2 {
			return nil, fmt.Errorf("bad parameter %q", part)
		}
		out = append(out, QVar{f[0], f[1]})
	}
	return out, nil
}

// ParseContractText parses the //@ lines of one contract file.
func ParseContractText(pkg, file, text string) (*ContractFile, error) {
	cf := &ContractFile{Pkg: pkg}
	var lines []string
	var lineNos []int
	for i, l := range strings.Split(text, "\n") {
		t := strings.TrimSpace(l)
		if !strings.HasPrefix(t, "//@") {
			continue
		}
		body := strings.TrimSpace(t[3:])
		if body == "" || strings.HasPrefix(body, "#") {
			continue
		}
		// continuation: previous line ended with '\'
		if n := len(lines); n > 0 && strings.HasSuffix(lines[n-1], "\\") {
			lines[n-1] = strings.TrimSuffix(lines[n-1], "\\") + " " + body
			continue
		}
		lines = append(lines, body)
		lineNos = append(lineNos, i+1)
	}
	var cur *Contract
	var curLemma *Lemma
	for k, l := range lines {
		ln := lineNos[k]
		kw, rest := l, ""
		if i := strings.IndexAny(l, " \t"); i > 0 {
			kw, rest = l[:i], strings.TrimSpace(l[i+1:])
		}
		switch kw {
		case "func":
			cur = &Contract{FuncName: rest, Pkg: pkg, Loops: map[int]*LoopSpec{}, File: file, Line: ln, PanicsOK: map[string]bool{}}
			// "func F #name": a second contract for F, proved against F's body but never used at call sites (callers keep
			// the main contract). Used to prove a concrete, field-level statement about a function whose callers reason
			// through an abstract view.
			if i := strings.LastIndex(rest, " #"); i > 0 {
				cur.FuncName, cur.Alt = strings.TrimSpace(rest[:i]), strings.TrimSpace(rest[i+2:])
			}
			curLemma = nil
			cf.Contracts = append(cf.Contracts, cur)
		case "lemma":
			// lemma name(vars)
			i := strings.Index(rest, "(")
			j := strings.LastIndex(rest, ")")
			if i < 0 || j < i {
				return nil, fmt.Errorf("%s:%d: bad lemma header", file, ln)
			}
			vars, err := parseQVars(rest[i+1 : j])
			if err != nil {
				return nil, fmt.Errorf("%s:%d: %v", file, ln, err)
			}
			curLemma = &Lemma{Name: strings.TrimSpace(rest[:i]), Pkg: pkg, Vars: vars, File: file, Line: ln}
			cur = nil
			cf.Lemmas = append(cf.Lemmas, curLemma)
		case "implements":
			if cur == nil {
				return nil, fmt.Errorf("%s:%d: implements outside func", file, ln)
			}
			cur.Implements = append(cur.Implements, strings.TrimSpace(rest))
		case "local":
			// local <name> <type>: <name> in this contract's clauses is the function's source-level local variable of that
			// name or, if it was renamed, its only local of that type
			fs := strings.Fields(rest)
			if cur == nil || len(fs) < 2 {
				return nil, fmt.Errorf("%s:%d: bad local directive", file, ln)
			}
			if cur.Locals == nil {
				cur.Locals = map[string]string{}
			}
			cur.Locals[fs[0]] = strings.Join(fs[1:], " ")
		case "skolem":
			// skolem a, b: the ghost constants a(), b() stand for arbitrary values in this contract's ensures clauses; a
			// caller may therefore use such a clause for every value (it is assumed universally quantified at call sites)
			if cur == nil {
				return nil, fmt.Errorf("%s:%d: skolem outside func", file, ln)
			}
			for _, f := range strings.FieldsFunc(rest, func(r rune) bool { return r == ',' || r == ' ' }) {
				cur.Skolems = append(cur.Skolems, f)
			}
		case "assumespre":
			// assumespre <callee> [: reason]
			if cur == nil {
				return nil, fmt.Errorf("%s:%d: assumespre outside func", file, ln)
			}
			name, why := rest, ""
			if i := strings.Index(rest, ":"); i >= 0 {
				name, why = strings.TrimSpace(rest[:i]), strings.TrimSpace(rest[i+1:])
			}
			if cur.AssumesPre == nil {
				cur.AssumesPre = map[string]string{}
			}
			cur.AssumesPre[name] = why
		case "covers":
			// a situation that must be reachable at a normal return (vacuity guard for the clauses that talk about it)
			c, err := parseClause(rest, file, ln)
			if err != nil {
				return nil, err
			}
			if cur == nil {
				return nil, fmt.Errorf("%s:%d: covers outside func", file, ln)
			}
			cur.Covers = append(cur.Covers, c)
		case "assumes":
			c, err := parseClause(rest, file, ln)
			if err != nil {
				return nil, err
			}
			if cur == nil {
				return nil, fmt.Errorf("%s:%d: assumes outside func", file, ln)
			}
			c.Assumed = true
			cur.Requires = append(cur.Requires, c)
		case "requires", "ensures":
			c, err := parseClause(rest, file, ln)
			if err != nil {
				return nil, err
			}
			if curLemma != nil {
				if kw == "requires" {
					curLemma.Requires = append(curLemma.Requires, c)
				} else {
					curLemma.Ensures = append(curLemma.Ensures, c)
				}
				continue
			}
			if cur == nil {
				return nil, fmt.Errorf("%s:%d: %s outside func", file, ln, kw)
			}
			if kw == "requires" {
				cur.Requires = append(cur.Requires, c)
			} else {
				cur.Ensures = append(cur.Ensures, c)
			}
		case "serves":
			ps := strings.FieldsFunc(rest, func(r rune) bool { return r == ',' || r == ' ' })
			if curLemma != nil {
				curLemma.Props = append(curLemma.Props, ps...)
			} else if cur != nil {
				cur.Props = append(cur.Props, ps...)
			}
		case "modifies":
			if cur == nil {
				return nil, fmt.Errorf("%s:%d: modifies outside func", file, ln)
			}
			cur.ModSet = true
			for _, m := range splitTopLevel(rest) {
				m = strings.TrimSpace(m)
				if m != "" && m != "nothing" {
					cur.Modifies = append(cur.Modifies, m)
				}
			}
		case "nopanic":
			// "nopanic" or "nopanic kind kind ...": only the listed kinds of panic are obligations (the others are pruned as
			// under partial correctness); kinds: nil index slice bigdivzero divzero nilmap typeassert explicit ...
			cur.NoPanic = true
			cur.NoPanicKinds = strings.Fields(rest)
		case "splitreturns":
			cur.SplitRet = true
		case "trusted":
			cur.Trusted = true
		case "inline":
			cur.Inline = true
		case "thorough":
			cur.Thorough = true
		case "pure":
			cur.Pure = true
			cur.ModSet = true
		case "let":
			i := strings.Index(rest, "=")
			if i < 0 {
				return nil, fmt.Errorf("%s:%d: bad let", file, ln)
			}
			e, err := ParseExpr(strings.TrimSpace(rest[i+1:]))
			if err != nil {
				return nil, fmt.Errorf("%s:%d: %v", file, ln, err)
			}
			cur.Lets = append(cur.Lets, LetDef{strings.TrimSpace(rest[:i]), e})
		case "loop":
			// loop <n> invariant <clause>
			f := strings.SplitN(rest, " ", 3)
			if len(f) < 3 || f[1] != "invariant" {
				return nil, fmt.Errorf("%s:%d: bad loop clause", file, ln)
			}
			n := 0
			fmt.Sscanf(f[0], "%d", &n)
			c, err := parseClause(f[2], file, ln)
			if err != nil {
				return nil, err
			}
			ls := cur.Loops[n]
			if ls == nil {
				ls = &LoopSpec{}
				cur.Loops[n] = ls
			}
			ls.Invariants = append(ls.Invariants, c)
		case "spec":
			// spec name(a T, b T) T [= expr]
			i := strings.Index(rest, "(")
			j := strings.Index(rest, ")")
			if i < 0 || j < i {
				return nil, fmt.Errorf("%s:%d: bad spec header", file, ln)
			}
			vars, err := parseQVars(rest[i+1 : j])
			if err != nil {
				return nil, fmt.Errorf("%s:%d: %v", file, ln, err)
			}
			tail := strings.TrimSpace(rest[j+1:])
			sf := &SpecFunc{Name: strings.TrimSpace(rest[:i]), Pkg: pkg, Params: vars, File: file, Line: ln}
			if k := strings.Index(tail, "="); k >= 0 {
				sf.Ret = strings.TrimSpace(tail[:k])
				sf.Src = strings.TrimSpace(tail[k+1:])
				e, err := ParseExpr(sf.Src)
				if err != nil {
					return nil, fmt.Errorf("%s:%d: %v", file, ln, err)
				}
				sf.Body = e
			} else {
				sf.Ret = tail
			}
			cf.Specs = append(cf.Specs, sf)
		case "ghost", "history":
			// ghost name(k T, ...) T
			i := strings.Index(rest, "(")
			j := strings.Index(rest, ")")
			if i < 0 || j < i {
				return nil, fmt.Errorf("%s:%d: bad ghost header", file, ln)
			}
			vars, err := parseQVars(rest[i+1 : j])
			if err != nil {
				return nil, fmt.Errorf("%s:%d: %v", file, ln, err)
			}
			cf.Ghosts = append(cf.Ghosts, &GhostDecl{Name: strings.TrimSpace(rest[:i]), Pkg: pkg, Keys: vars, Ret: strings.TrimSpace(rest[j+1:]), History: kw == "history"})
		case "axiom":
			c, err := parseClause(rest, file, ln)
			if err != nil {
				return nil, err
			}
			cf.Axioms = append(cf.Axioms, &Axiom{pkg, c})
		case "guarded":
			// guarded T.f, T.g by lockfield   (lock discipline, C25: fields of T accessed only with T.lockfield held)
			k := strings.LastIndex(rest, " by ")
			if k < 0 {
				return nil, fmt.Errorf("%s:%d: guarded needs 'by <lock field>'", file, ln)
			}
			lock := strings.TrimSpace(rest[k+4:])
			for _, tf := range strings.Split(rest[:k], ",") {
				tf = strings.TrimSpace(tf)
				d := strings.Index(tf, ".")
				if d <= 0 {
					return nil, fmt.Errorf("%s:%d: guarded expects Type.field", file, ln)
				}
				cf.Guards = append(cf.Guards, &GuardDecl{Pkg: pkg, Type: tf[:d], Field: tf[d+1:], Lock: lock, File: file, Line: ln})
			}
		default:
			return nil, fmt.Errorf("%s:%d: unknown keyword %q", file, ln, kw)
		}
	}
	return cf, nil
}
