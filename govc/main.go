package main

import (
	"flag"
	"fmt"
	"os"
	"path/filepath"
	"sort"
	"strings"
	"time"
)

func (c *Ctx) prepare() {
	for _, a := range c.asserts {
		if a.Syms == nil {
			a.Syms = c.symbolsOf(a.Text)
			if a.Syms == nil {
				a.Syms = []string{}
			}
		}
	}
}

var verifDir = "/verif"

func main() {
	if len(os.Args) < 2 {
		fmt.Println("usage: govc <verify|check|list|dump> ...")
		os.Exit(2)
	}
	if d := os.Getenv("GOVC_VERIF_DIR"); d != "" {
		verifDir = d
	}
	switch os.Args[1] {
	case "verify":
		cmdVerify(os.Args[2:])
	case "check":
		cmdCheck(os.Args[2:])
	case "warm":
		cmdWarm()
	case "selftest":
		cmdSelftest(os.Args[2:])
	default:
		fmt.Println("unknown command", os.Args[1])
		os.Exit(2)
	}
}

func cmdWarm() {
	t0 := time.Now()
	_, err := LoadProgram(repoDir(), allPatterns(), nil, filepath.Join(verifDir, "govc", "lib"))
	if err != nil {
		fmt.Println("warm: load error:", err)
		os.Exit(2)
	}
	fmt.Printf("warm: loaded in %.1fs\n", time.Since(t0).Seconds())
}

func repoDir() string {
	if d := os.Getenv("GOVC_REPO"); d != "" {
		return d
	}
	return "/repo"
}

func allPatterns() []string {
	return []string{"./coreV2/...", "./formula", "./rlp", "./crypto", "./math", "./tree", "./upgrades", "./helpers"}
}

// cmdVerify: developer command. govc verify [-v] [-pkg pattern] [-tier t] name-substring...
func cmdVerify(args []string) {
	fs := flag.NewFlagSet("verify", flag.ExitOnError)
	pkgs := fs.String("pkg", "", "comma-separated package patterns (default: all)")
	verbose := fs.Bool("v", false, "verbose")
	tier := fs.String("tier", "quick", "tier")
	dump := fs.String("dump", "", "dump the query of the obligation with this name to stdout")
	keep := fs.Bool("keep", false, "keep scratch")
	cap := fs.Int("cap", 10, "solver cap seconds")
	locks := fs.Bool("locks", false, "verify the lock-discipline sweep units (C25) whose names match instead of the contracts")
	fs.Parse(args)
	patterns := allPatterns()
	if *pkgs != "" {
		patterns = strings.Split(*pkgs, ",")
	}
	t0 := time.Now()
	prog, err := LoadProgram(repoDir(), patterns, nil, filepath.Join(verifDir, "govc", "lib"))
	if err != nil {
		fmt.Println("load error:", err)
		os.Exit(2)
	}
	fmt.Printf("loaded %d packages, %d functions, %d contracts in %.1fs\n", len(prog.Pkgs), len(prog.Funcs), len(prog.Contracts), time.Since(t0).Seconds())
	var units []*Unit
	match := func(name string) bool {
		if fs.NArg() == 0 {
			return true
		}
		for _, a := range fs.Args() {
			if strings.Contains(name, a) {
				return true
			}
		}
		return false
	}
	for _, k := range prog.SortedContractKeys() {
		if *locks {
			break
		}
		ct := prog.Contracts[k]
		if ct.Trusted || strings.HasPrefix(ct.FuncName, "iface ") || strings.HasPrefix(ct.FuncName, "field ") {
			continue
		}
		if !match(k) {
			continue
		}
		units = append(units, prog.VerifyContract(ct, *tier))
	}
	if *locks {
		activeProperty = "C25"
		sw := prog.lockSweepContracts()
		sort.Slice(sw, func(i, j int) bool { return sw[i].Pkg+sw[i].FuncName < sw[j].Pkg+sw[j].FuncName })
		for _, ct := range sw {
			if match(ct.Pkg + "::" + ct.FuncName) {
				units = append(units, prog.VerifyContract(ct, *tier))
			}
		}
	}
	for _, l := range prog.Lemmas {
		if match(l.Pkg + "::lemma." + l.Name) {
			units = append(units, prog.VerifyLemma(l, *tier))
		}
	}
	scratch, _ := os.MkdirTemp("", "govc-")
	if !*keep {
		defer os.RemoveAll(scratch)
	} else {
		fmt.Println("scratch:", scratch)
	}
	var all []*Obligation
	for _, u := range units {
		u.Ctx.prepare()
		all = append(all, u.Obls...)
	}
	if *dump != "" {
		for _, o := range all {
			if o.Name == *dump || strings.HasSuffix(o.Name, *dump) {
				q, _ := o.Unit.BuildQuery(o, true)
				fmt.Println(q)
			}
		}
		return
	}
	t1 := time.Now()
	SolveAll(all, scratch, 14, 3, *cap, false)
	fmt.Printf("solved %d obligations in %.1fs\n", len(all), time.Since(t1).Seconds())
	bad := 0
	for _, u := range units {
		fmt.Printf("== %s (%s) passes=%d\n", u.Name, u.Pos, u.Passes)
		for _, e := range u.Errors {
			fmt.Println("   SPEC ERROR:", e)
			bad++
		}
		for _, w := range u.Ctx.outOfSubset {
			fmt.Println("   OUT-OF-SUBSET:", w)
		}
		if *verbose {
			for _, w := range u.Ctx.warnings {
				fmt.Println("   warn:", w)
			}
			for _, k := range sortedKeys(u.Ctx.uncontracted) {
				fmt.Printf("   uncontracted call: %s x%d\n", k, u.Ctx.uncontracted[k])
			}
		}
		for _, o := range u.Obls {
			ok := o.Status == "unsat"
			if o.ExpectFail {
				ok = o.Status == "sat"
			}
			mark := "ok  "
			if !ok {
				mark = "FAIL"
				bad++
			}
			if !ok || *verbose {
				fmt.Printf("   %s %-60s %-8s %-7s %5dms hyp=%d size=%d\n", mark, strings.TrimPrefix(o.Name, u.Name), o.Status, o.Solver, o.Ms, o.NHyp, o.Size)
				if !ok {
					fmt.Printf("        %s  [%s]\n", o.Src, o.Pos)
					if o.Status == "error" {
						fmt.Printf("        %s\n", strings.TrimSpace(o.Output))
					}
					if len(o.Model) > 0 {
						var ks []string
						for k := range o.Model {
							ks = append(ks, k)
						}
						sort.Strings(ks)
						for _, k := range ks {
							fmt.Printf("        %s = %s\n", k, o.Model[k])
						}
					}
				}
			}
		}
	}
	if bad > 0 {
		fmt.Printf("%d problems\n", bad)
		if !*keep {
			os.RemoveAll(scratch)
		}
		os.Exit(1)
	}
	fmt.Println("all ok")
}
