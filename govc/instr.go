package main

import (
	"fmt"
	"go/token"
	"go/types"
	"math/big"
	"strings"

	"golang.org/x/tools/go/ssa"
)

func pow2(n int) *big.Int { return new(big.Int).Lsh(big.NewInt(1), uint(n)) }

// wrap reduces an integer term to the range of type t (Go's wrap-around semantics).
func wrapInt(t types.Type, v *Term) *Term {
	bits, signed, ok := intBits(t)
	if !ok {
		return v
	}
	m := pow2(bits).String()
	if !signed {
		return mk(SInt, fmt.Sprintf("(mod %s %s)", v.S, m))
	}
	h := pow2(bits - 1).String()
	return mk(SInt, fmt.Sprintf("(- (mod (+ %s %s) %s) %s)", v.S, h, m, h))
}

// instr translates one non-terminator instruction. It returns a new block guard if the instruction
// can end the path (panic), otherwise nil.
func (fr *Frame) instr(ins ssa.Instruction, st *State, g *Term) *Term {
	c := fr.c
	switch x := ins.(type) {
	case *ssa.DebugRef:
		return nil
	case *ssa.Alloc:
		el := x.Type().(*types.Pointer).Elem()
		r := c.allocRef(st, g, "new."+x.Name())
		fr.vals[x] = tv(r)
		if isBigInt(el) {
			c.heapSet(st, c.bigvalName(), c.sto(c.heapGet(st, c.bigvalName()), r, intLit(0)))
			return nil
		}
		if isBigFloat(el) {
			c.heapSet(st, c.realvalName(), c.sto(c.heapGet(st, c.realvalName()), r, mk(SReal, "0.0")))
			return nil
		}
		loc := c.derefLoc(tv(r), x.Type())
		c.store(st, loc, c.zeroTerm(el))
		return nil
	case *ssa.FieldAddr:
		base := fr.get(x.X)
		pt := x.X.Type().Underlying().(*types.Pointer)
		ng := fr.nilCheck(base, g, st, x.Pos(), "field address of nil pointer")
		ploc := c.derefLoc(base, x.X.Type())
		u := pt.Elem().Underlying().(*types.Struct)
		if ploc.Kind == LRefStruct {
			fr.vals[x] = Val{Loc: &Loc{Kind: LCell, Name: c.fieldArrayName(pt.Elem(), x.Field), Idx: []*Term{ploc.Ref}, Elem: u.Field(x.Field).Type()}}
		} else {
			fr.vals[x] = Val{Loc: &Loc{Kind: LProj, Parent: ploc, Field: x.Field, Elem: u.Field(x.Field).Type()}}
		}
		return ng
	case *ssa.Field:
		sv := fr.term(x.X)
		u := x.X.Type().Underlying().(*types.Struct)
		fr.vals[x] = tv(c.structField(x.X.Type(), sv, x.Field))
		_ = u
		return nil
	case *ssa.IndexAddr:
		idx := fr.term(x.Index)
		switch xt := x.X.Type().Underlying().(type) {
		case *types.Slice:
			s := fr.term(x.X)
			ng := fr.mayPanicIf(g, mk(SBool, fmt.Sprintf("(or (< %s 0) (>= %s (s.len %s)))", idx.S, idx.S, s.S)), st, "index", x.Pos(), "index out of range")
			fr.vals[x] = Val{Loc: &Loc{Kind: LCell, Name: c.elemNameT(xt.Elem()), Idx: []*Term{mk(SInt, "(s.arr "+s.S+")"), mk(SInt, fmt.Sprintf("(sidx %s %s)", s.S, idx.S))}, Elem: xt.Elem()}}
			return ng
		case *types.Pointer:
			arr := xt.Elem().Underlying().(*types.Array)
			base := fr.get(x.X)
			ng := fr.nilCheck(base, g, st, x.Pos(), "index of nil array pointer")
			ng2 := fr.mayPanicIf(orG(ng, g), mk(SBool, fmt.Sprintf("(or (< %s 0) (>= %s %d))", idx.S, idx.S, arr.Len())), st, "index", x.Pos(), "index out of range")
			ploc := c.derefLoc(base, x.X.Type())
			fr.vals[x] = Val{Loc: &Loc{Kind: LProj, Parent: ploc, Index: idx, Elem: arr.Elem()}}
			return ng2
		}
		c.unsupported("IndexAddr on %s", x.X.Type())
		return nil
	case *ssa.Index:
		idx := fr.term(x.Index)
		switch xt := x.X.Type().Underlying().(type) {
		case *types.Array:
			a := fr.term(x.X)
			ng := fr.mayPanicIf(g, mk(SBool, fmt.Sprintf("(or (< %s 0) (>= %s %d))", idx.S, idx.S, xt.Len())), st, "index", x.Pos(), "index out of range")
			fr.vals[x] = tv(tSelect(a, idx))
			return ng
		default:
			// string indexing
			c.declareFun("gstr.at", []Sort{SStr, SInt}, SInt)
			s := fr.term(x.X)
			ng := fr.mayPanicIf(g, mk(SBool, fmt.Sprintf("(or (< %s 0) (>= %s (gstr.len %s)))", idx.S, idx.S, s.S)), st, "index", x.Pos(), "string index out of range")
			v := app(SInt, "gstr.at", s, idx)
			c.assumeG(g, c.typeConstraint(types.Typ[types.Uint8], v))
			fr.vals[x] = tv(v)
			return ng
		}
	case *ssa.UnOp:
		return fr.unop(x, st, g)
	case *ssa.BinOp:
		return fr.binop(x, st, g)
	case *ssa.Store:
		addr := fr.get(x.Addr)
		ng := fr.nilCheck(addr, g, st, x.Pos(), "store through nil pointer")
		fr.guardLoadStore(x.Addr, nil, true, st, g, x.Pos())
		loc := c.derefLoc(addr, x.Addr.Type())
		val := fr.get(x.Val)
		if isBigIntValueType(loc.Elem) {
			c.unsupported("store of big.Int by value")
			return ng
		}
		c.store(st, loc, c.valTerm(val, "store"))
		return ng
	case *ssa.Extract:
		tup := fr.get(x.Tuple)
		if tup.Tuple != nil && x.Index < len(tup.Tuple) {
			fr.vals[x] = tup.Tuple[x.Index]
		} else {
			fr.vals[x] = c.freshVal(st, g, x.Type(), x.Name())
		}
		return nil
	case *ssa.Call:
		res, ng := fr.call(x.Common(), x, st, g)
		fr.vals[x] = res
		return ng
	case *ssa.Defer:
		d := deferred{call: x.Common(), guard: g}
		for _, a := range x.Common().Args {
			d.args = append(d.args, fr.get(a))
		}
		if !x.Common().IsInvoke() {
			d.fnVal = fr.get(x.Common().Value)
		} else {
			d.fnVal = fr.get(x.Common().Value)
		}
		fr.defers = append(fr.defers, d)
		return nil
	case *ssa.RunDefers:
		var ng *Term
		cur := g
		for i := len(fr.defers) - 1; i >= 0; i-- {
			d := fr.defers[i]
			// a defer registered under guard d.guard runs only on those paths; unconditional in practice
			if d.guard.S != cur.S && d.guard.S != "true" {
				// conditional defer: run on a branch state and merge
				dg := tAnd(cur, d.guard)
				bst := st.clone()
				_, _ = fr.callWith(d.call, nil, bst, dg, d.args, d.fnVal)
				nst := c.joinStates([]*Term{dg, tAnd(cur, tNot(d.guard))}, []*State{bst, st})
				st.heap = nst.heap
				continue
			}
			_, g2 := fr.callWith(d.call, nil, st, cur, d.args, d.fnVal)
			if g2 != nil {
				cur = g2
				ng = g2
			}
		}
		return ng
	case *ssa.MakeInterface:
		inner := fr.get(x.X)
		it := c.boxIface(x.X.Type(), c.valTerm(inner, "iface"), st, g)
		iv := inner
		fr.vals[x] = Val{T: it, Dyn: x.X.Type(), DynV: &iv}
		return nil
	case *ssa.ChangeInterface:
		fr.vals[x] = fr.get(x.X)
		return nil
	case *ssa.ChangeType:
		fr.vals[x] = fr.get(x.X)
		return nil
	case *ssa.Convert:
		fr.vals[x] = fr.convert(x, st, g)
		return nil
	case *ssa.TypeAssert:
		return fr.typeAssert(x, st, g)
	case *ssa.MakeSlice:
		n := fr.term(x.Len)
		ng := fr.mayPanicIf(g, tLt(n, intLit(0)), st, "makeslice", x.Pos(), "makeslice: len out of range")
		r := c.allocRef(st, g, "mkslice."+x.Name())
		el := x.Type().Underlying().(*types.Slice).Elem()
		es := c.sortOf(el)
		en := c.elemNameT(el)
		zero := mk(ArrSort(SInt, es), fmt.Sprintf("((as const %s) %s)", ArrSort(SInt, es), c.zeroTerm(el).S))
		c.heapSet(st, en, c.sto(c.heapGet(st, en), r, zero))
		fr.vals[x] = tv(mk(SSlice, fmt.Sprintf("(mk-slice %s 0 %s)", r.S, n.S)))
		return ng
	case *ssa.MakeMap:
		r := c.allocRef(st, g, "mkmap."+x.Name())
		mt := x.Type().Underlying().(*types.Map)
		dn, vn, cn := c.mapNames(mt)
		ks := c.mapKeySort(mt)
		c.heapSet(st, dn, c.sto(c.heapGet(st, dn), r, mk(ArrSort(ks, SBool), fmt.Sprintf("((as const %s) false)", ArrSort(ks, SBool)))))
		c.heapSet(st, cn, c.sto(c.heapGet(st, cn), r, intLit(0)))
		_ = vn
		fr.vals[x] = tv(r)
		return nil
	case *ssa.MapUpdate:
		fr.guardUse(x.Map, true, st, g, x.Pos(), "map update")
		m := fr.term(x.Map)
		mt := x.Map.Type().Underlying().(*types.Map)
		ng := fr.mayPanicIf(g, tEq(m, intLit(0)), st, "nilmap", x.Pos(), "assignment to entry in nil map")
		dn, vn, cn := c.mapNames(mt)
		k := c.mapKey(mt, fr.term(x.Key))
		v := fr.term(x.Value)
		dom := c.sel(c.heapGet(st, dn), m)
		was := tSelect(dom, k)
		cnt := c.sel(c.heapGet(st, cn), m)
		c.heapSet(st, cn, c.sto(c.heapGet(st, cn), m, tIte(was, cnt, tAdd(cnt, intLit(1)))))
		c.heapSet(st, dn, c.sto(c.heapGet(st, dn), m, tStore(dom, k, tTrue)))
		vals := c.sel(c.heapGet(st, vn), m)
		c.heapSet(st, vn, c.sto(c.heapGet(st, vn), m, tStore(vals, k, v)))
		return ng
	case *ssa.Lookup:
		if mt, ok := x.X.Type().Underlying().(*types.Map); ok {
			fr.guardUse(x.X, false, st, g, x.Pos(), "map lookup")
			m := fr.term(x.X)
			dn, vn, _ := c.mapNames(mt)
			k := c.mapKey(mt, fr.term(x.Index))
			// reading a nil map yields the zero value
			dom := c.sel(c.heapGet(st, dn), m)
			present := tAnd(tNot(tEq(m, intLit(0))), tSelect(dom, k))
			raw := tSelect(c.sel(c.heapGet(st, vn), m), k)
			val := c.define(x.Name(), tIte(present, raw, c.zeroTerm(mt.Elem())))
			c.assumeG(g, c.typeConstraint(mt.Elem(), val))
			c.assumeLoadedRef(st, vn, mt.Elem(), val, m)
			c.bornNow(val)
			if x.CommaOk {
				fr.vals[x] = Val{Tuple: []Val{tv(val), tv(c.define(x.Name()+".ok", present))}}
			} else {
				fr.vals[x] = tv(val)
			}
			return nil
		}
		// string index
		c.declareFun("gstr.at", []Sort{SStr, SInt}, SInt)
		fr.vals[x] = tv(app(SInt, "gstr.at", fr.term(x.X), fr.term(x.Index)))
		return nil
	case *ssa.Slice:
		return fr.sliceOp(x, st, g)
	case *ssa.MakeClosure:
		cl := &Closure{Fn: x.Fn.(*ssa.Function)}
		for _, b := range x.Bindings {
			cl.Bindings = append(cl.Bindings, fr.get(b))
		}
		fr.vals[x] = Val{Clo: cl}
		return nil
	case *ssa.Range:
		fr.guardUse(x.X, false, st, g, x.Pos(), "range")
		if gi := fr.guardOf[x.X]; gi != nil {
			fr.guardOf[x] = gi
		}
		return fr.rangeInit(x, st, g)
	case *ssa.Next:
		fr.guardUse(x.Iter, false, st, g, x.Pos(), "map iteration step")
		return fr.rangeNext(x, st, g)
	case *ssa.Go:
		c.unsupported("go statement at %s", c.posOf(x.Pos()))
		c.havocAll(st)
		return nil
	case *ssa.Send, *ssa.Select, *ssa.MakeChan:
		c.unsupported("channel operation at %s", c.posOf(ins.Pos()))
		if v, ok := ins.(ssa.Value); ok {
			fr.vals[v] = c.freshVal(st, g, v.Type(), v.Name())
		}
		return nil
	case *ssa.SliceToArrayPointer, *ssa.MultiConvert:
		c.unsupported("%T at %s", ins, c.posOf(ins.Pos()))
		if v, ok := ins.(ssa.Value); ok {
			fr.vals[v] = c.freshVal(st, g, v.Type(), v.Name())
		}
		return nil
	}
	c.unsupported("instruction %T", ins)
	if v, ok := ins.(ssa.Value); ok {
		fr.vals[v] = c.freshVal(st, g, v.Type(), v.Name())
	}
	return nil
}

func orG(a, b *Term) *Term {
	if a != nil {
		return a
	}
	return b
}

func isBigIntValueType(t types.Type) bool { return isBigInt(t) || isBigFloat(t) }

// mapKeySort: keys of array sort ([32]byte public keys, addresses...) are wrapped into an uninterpreted key sort,
// because cvc5 rejects arrays indexed by arrays. key!S is a function (equal arrays give equal keys); it is not
// assumed injective, which only makes lookups coarser (sound).
func (c *Ctx) mapKeySort(mt *types.Map) Sort {
	ks := c.sortOf(mt.Key())
	if strings.HasPrefix(string(ks), "(Array ") {
		name := "Key." + sanitize(string(ks))
		if !c.dtDecls[name] {
			c.dtDecls[name] = true
			c.sortDecls = append(c.sortDecls, fmt.Sprintf("(declare-sort %s 0)", name))
		}
		return Sort(name)
	}
	return ks
}

// mapKey converts a Go key value to the index used in the map arrays.
func (c *Ctx) mapKey(mt *types.Map, k *Term) *Term {
	ks := c.sortOf(mt.Key())
	if strings.HasPrefix(string(ks), "(Array ") {
		kk := c.mapKeySort(mt)
		fn := "key!" + sanitize(string(ks))
		if _, ok := c.declared[fn]; !ok {
			c.declareFun(fn, []Sort{ks}, kk)
			// injective: distinct Go keys are distinct map keys (given through an inverse, instantiated per application)
			un := "unkey!" + sanitize(string(ks))
			c.declareFun(un, []Sort{kk}, ks)
			c.asserts = append(c.asserts, &Assertion{Seq: 0, Text: fmt.Sprintf("(forall ((ka %s)) (! (= (%s (%s ka)) ka) :pattern ((%s ka))))", ks, un, fn, fn)})
		}
		return app(kk, fn, k)
	}
	return k
}

func (c *Ctx) mapNames(mt *types.Map) (dom, val, card string) {
	ks, vs := c.mapKeySort(mt), c.sortOf(mt.Elem())
	suffix := sanitize(string(ks)) + "!" + sanitize(string(vs))
	dom = c.heapName("mapdom!"+suffix, ArrSort(SInt, ArrSort(ks, SBool)))
	val = c.heapName("mapval!"+suffix, ArrSort(SInt, ArrSort(ks, vs)))
	card = c.heapName("mapcard!"+suffix, ArrSort(SInt, SInt))
	return
}

func (fr *Frame) nilCheck(v Val, g *Term, st *State, pos token.Pos, desc string) *Term {
	if v.Loc != nil {
		return nil
	}
	if v.T == nil {
		return nil
	}
	// freshly allocated references are never nil: cheap syntactic shortcut
	return fr.mayPanicIfNew(g, tEq(v.T, intLit(0)), st, "nil", pos, desc)
}

// mayPanicIfNew is mayPanicIf but returns nil when the guard does not change.
func (fr *Frame) mayPanicIfNew(g *Term, cond *Term, st *State, kind string, pos token.Pos, desc string) *Term {
	ng := fr.mayPanicIf(g, cond, st, kind, pos, desc)
	if ng.S == g.S {
		return nil
	}
	return ng
}

func (fr *Frame) unop(x *ssa.UnOp, st *State, g *Term) *Term {
	c := fr.c
	switch x.Op {
	case token.MUL: // load
		addr := fr.get(x.X)
		ng := fr.nilCheck(addr, g, st, x.Pos(), "nil pointer dereference")
		fr.guardLoadStore(x.X, x, false, st, g, x.Pos())
		loc := c.derefLoc(addr, x.X.Type())
		if isBigIntValueType(loc.Elem) {
			c.unsupported("load of big number by value at %s", c.posOf(x.Pos()))
			fr.vals[x] = c.freshVal(st, g, x.Type(), x.Name())
			return ng
		}
		if _, isGlobal := x.X.(*ssa.Global); isGlobal {
			c.assumeGlobalFacts(st, loc.Name)
		}
		v := c.define(x.Name(), c.load(st, loc))
		c.bornNow(v)
		gg := orG(ng, g)
		c.assumeG(gg, c.typeConstraint(x.Type(), v))
		if loc.Kind == LCell {
			var ix *Term
			if len(loc.Idx) > 0 {
				ix = loc.Idx[0]
			} else {
				ix = intLit(0) // a global: exists at entry
			}
			c.assumeLoadedRef(st, loc.Name, x.Type(), v, ix)
		} else {
			c.assumeAllocated(st, gg, x.Type(), v)
		}
		fr.vals[x] = tv(v)
		return ng
	case token.NOT:
		fr.vals[x] = tv(tNot(fr.term(x.X)))
	case token.SUB:
		v := fr.term(x.X)
		if v.Sort == SReal {
			fr.vals[x] = tv(app(SReal, "-", v))
		} else {
			fr.vals[x] = tv(wrapInt(x.Type(), app(SInt, "-", v)))
		}
	case token.XOR:
		// bitwise complement
		v := fr.term(x.X)
		bits, signed, _ := intBits(x.Type())
		if signed {
			fr.vals[x] = tv(mk(SInt, fmt.Sprintf("(- (- %s) 1)", v.S)))
		} else {
			fr.vals[x] = tv(mk(SInt, fmt.Sprintf("(- %s %s)", new(big.Int).Sub(pow2(bits), big.NewInt(1)).String(), v.S)))
		}
	case token.ARROW:
		c.unsupported("channel receive at %s", c.posOf(x.Pos()))
		fr.vals[x] = c.freshVal(st, g, x.Type(), x.Name())
	default:
		c.unsupported("unop %s", x.Op)
		fr.vals[x] = c.freshVal(st, g, x.Type(), x.Name())
	}
	return nil
}

func (fr *Frame) binop(x *ssa.BinOp, st *State, g *Term) *Term {
	c := fr.c
	a, b := fr.term(x.X), fr.term(x.Y)
	xt := x.X.Type()
	var res *Term
	var ng *Term
	isReal := a.Sort == SReal
	switch x.Op {
	case token.EQL:
		res = c.goEq(xt, a, b)
	case token.NEQ:
		res = tNot(c.goEq(xt, a, b))
	case token.LSS, token.LEQ, token.GTR, token.GEQ:
		op := map[token.Token]string{token.LSS: "<", token.LEQ: "<=", token.GTR: ">", token.GEQ: ">="}[x.Op]
		if a.Sort == SStr {
			c.declareFun("gstr.lt", []Sort{SStr, SStr}, SBool)
			c.unsupported("string ordering at %s", c.posOf(x.Pos()))
			res = c.fresh("strcmp", SBool)
		} else {
			res = app(SBool, op, a, b)
		}
	case token.ADD:
		if a.Sort == SStr {
			c.declareFun("gstr.cat", []Sort{SStr, SStr}, SStr)
			res = app(SStr, "gstr.cat", a, b)
			c.assume(tEq(app(SInt, "gstr.len", res), tAdd(app(SInt, "gstr.len", a), app(SInt, "gstr.len", b))))
		} else if isReal {
			res = app(SReal, "+", a, b)
		} else {
			res = wrapInt(x.Type(), tAdd(a, b))
		}
	case token.SUB:
		if isReal {
			res = app(SReal, "-", a, b)
		} else {
			res = wrapInt(x.Type(), tSub(a, b))
		}
	case token.MUL:
		if isReal {
			res = app(SReal, "*", a, b)
		} else {
			res = wrapInt(x.Type(), tMul(a, b))
		}
	case token.QUO:
		if isReal {
			res = app(SReal, "/", a, b)
		} else {
			ng = fr.mayPanicIfNew(g, tEq(b, intLit(0)), st, "divzero", x.Pos(), "integer divide by zero")
			res = wrapInt(x.Type(), tQuoT(a, b))
		}
	case token.REM:
		ng = fr.mayPanicIfNew(g, tEq(b, intLit(0)), st, "divzero", x.Pos(), "integer divide by zero")
		res = tRemT(a, b)
	case token.SHL, token.SHR, token.AND, token.OR, token.XOR, token.AND_NOT:
		res = fr.bitop(x, a, b, st, g)
	case token.LAND:
		res = tAnd(a, b)
	case token.LOR:
		res = tOr(a, b)
	default:
		c.unsupported("binop %s", x.Op)
		res = c.fresh(x.Name(), c.sortOf(x.Type()))
	}
	fr.vals[x] = tv(c.define(x.Name(), res))
	return ng
}

func (c *Ctx) goEq(t types.Type, a, b *Term) *Term {
	if a.Sort == SSlice && b.Sort == SSlice {
		// slices are only comparable with nil: nil-ness is decided by the backing array reference
		return tEq(mk(SInt, "(s.arr "+a.S+")"), mk(SInt, "(s.arr "+b.S+")"))
	}
	return tEq(a, b)
}

// bitop handles shifts and masks: constants become div/mod; otherwise an uninterpreted result within the type range.
func (fr *Frame) bitop(x *ssa.BinOp, a, b *Term, st *State, g *Term) *Term {
	c := fr.c
	constOf := func(v ssa.Value) (*big.Int, bool) {
		if k, ok := v.(*ssa.Const); ok && k.Value != nil {
			if n, ok := new(big.Int).SetString(k.Value.ExactString(), 10); ok {
				return n, true
			}
		}
		return nil, false
	}
	_, signed, _ := intBits(x.Type())
	if x.Type().Underlying().(*types.Basic).Info()&types.IsBoolean != 0 {
		switch x.Op {
		case token.AND:
			return tAnd(a, b)
		case token.OR:
			return tOr(a, b)
		}
	}
	switch x.Op {
	case token.SHL:
		if n, ok := constOf(x.Y); ok && n.IsInt64() && n.Int64() < 256 {
			return wrapInt(x.Type(), tMul(a, bigLit(pow2(int(n.Int64())))))
		}
		// variable shift: a * 2^b with 2^b via uninterpreted pow2 function with a few facts
		c.declareFun("pow2", []Sort{SInt}, SInt)
		p := app(SInt, "pow2", b)
		c.assumeG(g, mk(SBool, fmt.Sprintf("(and (=> (= %s 0) (= %s 1)) (>= %s 1))", b.S, p.S, p.S)))
		return wrapInt(x.Type(), tMul(a, p))
	case token.SHR:
		if n, ok := constOf(x.Y); ok && n.IsInt64() && n.Int64() < 256 {
			return tDivE(a, bigLit(pow2(int(n.Int64())))) // floor division == arithmetic shift
		}
		c.declareFun("pow2", []Sort{SInt}, SInt)
		p := app(SInt, "pow2", b)
		c.assumeG(g, mk(SBool, fmt.Sprintf("(and (=> (= %s 0) (= %s 1)) (>= %s 1))", b.S, p.S, p.S)))
		return tDivE(a, p)
	case token.AND:
		if n, ok := constOf(x.Y); ok && !signed {
			// mask 2^k-1
			m := new(big.Int).Add(n, big.NewInt(1))
			if m.Sign() > 0 && new(big.Int).And(m, n).Sign() == 0 {
				return tModE(a, bigLit(m))
			}
		}
		if n, ok := constOf(x.X); ok && !signed {
			m := new(big.Int).Add(n, big.NewInt(1))
			if m.Sign() > 0 && new(big.Int).And(m, n).Sign() == 0 {
				return tModE(b, bigLit(m))
			}
		}
	}
	name := map[token.Token]string{token.AND: "bitand", token.OR: "bitor", token.XOR: "bitxor", token.AND_NOT: "bitandnot"}[x.Op]
	c.declareFun(name, []Sort{SInt, SInt}, SInt)
	r := app(SInt, name, a, b)
	c.assumeG(g, c.typeConstraint(x.Type(), r))
	if x.Op == token.AND && !signed {
		c.assumeG(g, mk(SBool, fmt.Sprintf("(and (<= %s %s) (<= %s %s))", r.S, a.S, r.S, b.S)))
	}
	if x.Op == token.OR && !signed {
		c.assumeG(g, mk(SBool, fmt.Sprintf("(and (>= %s %s) (>= %s %s))", r.S, a.S, r.S, b.S)))
	}
	return r
}

func (fr *Frame) convert(x *ssa.Convert, st *State, g *Term) Val {
	c := fr.c
	from, to := x.X.Type().Underlying(), x.Type().Underlying()
	v := fr.get(x.X)
	fb, fok := from.(*types.Basic)
	tb, tok := to.(*types.Basic)
	if fok && tok {
		switch {
		case fb.Info()&types.IsInteger != 0 && tb.Info()&types.IsInteger != 0:
			// widening conversions that cannot change the value are identities
			flo, fhi, _ := intRange(from)
			tlo, thi, _ := intRange(to)
			if rangeWithin(flo, fhi, tlo, thi) {
				return v
			}
			return tv(c.define(x.Name(), wrapInt(to, v.T)))
		case fb.Info()&types.IsInteger != 0 && tb.Info()&types.IsFloat != 0:
			c.usesReal = true
			return tv(app(SReal, "to_real", v.T))
		case fb.Info()&types.IsFloat != 0 && tb.Info()&types.IsInteger != 0:
			c.usesReal = true
			return tv(wrapInt(to, app(SInt, "truncR", v.T)))
		case fb.Info()&types.IsFloat != 0 && tb.Info()&types.IsFloat != 0:
			return v
		case fb.Info()&types.IsString != 0 && tb.Info()&types.IsString != 0:
			return v
		case fb.Info()&types.IsInteger != 0 && tb.Info()&types.IsString != 0:
			c.declareFun("gstr.fromRune", []Sort{SInt}, SStr)
			return tv(app(SStr, "gstr.fromRune", v.T))
		case tb.Kind() == types.UnsafePointer || fb.Kind() == types.UnsafePointer:
			return v
		}
	}
	// string <-> []byte
	if _, ok := to.(*types.Slice); ok && fok && fb.Info()&types.IsString != 0 {
		// fresh slice whose contents are a function of the string
		c.declareFun("gstr.bytes", []Sort{SStr}, ArrSort(SInt, SInt))
		r := c.allocRef(st, g, "strbytes."+x.Name())
		en := c.elemName(SInt)
		barr := app(ArrSort(SInt, SInt), "gstr.bytes", v.T)
		c.heapSet(st, en, c.sto(c.heapGet(st, en), r, barr))
		// the content of the new slice is the string itself
		c.assumeG(g, tEq(c.bytesContentOf(barr, intLit(0), app(SInt, "gstr.len", v.T)), v.T))
		return tv(mk(SSlice, fmt.Sprintf("(mk-slice %s 0 (gstr.len %s))", r.S, v.T.S)))
	}
	if _, ok := from.(*types.Slice); ok && tok && tb.Info()&types.IsString != 0 {
		c.declareFun("gbytes.str", []Sort{ArrSort(SInt, SInt), SInt, SInt}, SStr)
		s := v.T
		en := c.elemName(SInt)
		arr := tSelect(c.heapGet(st, en), mk(SInt, "(s.arr "+s.S+")"))
		r := app(SStr, "gbytes.str", arr, mk(SInt, "(s.off "+s.S+")"), mk(SInt, "(s.len "+s.S+")"))
		c.assumeG(g, tEq(app(SInt, "gstr.len", r), mk(SInt, "(s.len "+s.S+")")))
		return tv(r)
	}
	c.warn("conversion %s -> %s treated as opaque", x.X.Type(), x.Type())
	return c.freshVal(st, g, x.Type(), x.Name())
}

func rangeWithin(flo, fhi, tlo, thi string) bool {
	p := func(s string) *big.Int {
		neg := false
		if len(s) > 3 && s[:3] == "(- " {
			neg = true
			s = s[3 : len(s)-1]
		}
		n, _ := new(big.Int).SetString(s, 10)
		if neg {
			n.Neg(n)
		}
		return n
	}
	return p(flo).Cmp(p(tlo)) >= 0 && p(fhi).Cmp(p(thi)) <= 0
}

func (fr *Frame) sliceOp(x *ssa.Slice, st *State, g *Term) *Term {
	c := fr.c
	var lo, hi *Term
	if x.Low != nil {
		lo = fr.term(x.Low)
	} else {
		lo = intLit(0)
	}
	switch xt := x.X.Type().Underlying().(type) {
	case *types.Slice:
		s := fr.term(x.X)
		if x.High != nil {
			hi = fr.term(x.High)
		} else {
			hi = mk(SInt, "(s.len "+s.S+")")
		}
		// bound is cap, which we do not track: require hi <= len unless High is given explicitly (then up to cap; over-approximate as no panic obligation beyond lo<=hi)
		cond := mk(SBool, fmt.Sprintf("(or (< %s 0) (> %s %s))", lo.S, lo.S, hi.S))
		if x.High == nil {
			cond = mk(SBool, fmt.Sprintf("(or (< %s 0) (> %s (s.len %s)))", lo.S, lo.S, s.S))
		} else {
			c.warn("slice expression with explicit high bound: capacity not modelled (%s)", c.posOf(x.Pos()))
		}
		ng := fr.mayPanicIfNew(g, cond, st, "slice", x.Pos(), "slice bounds out of range")
		sub := c.define(x.Name(), mk(SSlice, fmt.Sprintf("(mk-slice (s.arr %s) (+ (s.off %s) %s) (- %s %s))", s.S, s.S, lo.S, hi.S, lo.S)))
		fr.vals[x] = tv(sub)
		if !strings.Contains(s.S, "q!") && !strings.Contains(lo.S, "q!") {
			// an index into the sub-slice is an index into the sliced slice: gives facts quantified over the indices of
			// the original slice (forall k :: ... s[k] ...) an instance for every element read through the sub-slice
			c.assumeG(g, mk(SBool, fmt.Sprintf("(forall ((j Int)) (! (= (sidx %s j) (sidx %s (+ %s j))) :pattern ((sidx %s j))))", sub.S, s.S, lo.S, sub.S)))
		}
		return ng
	case *types.Pointer: // pointer to array
		arr := xt.Elem().Underlying().(*types.Array)
		if x.High != nil {
			hi = fr.term(x.High)
		} else {
			hi = intLit(arr.Len())
		}
		base := fr.get(x.X)
		// arrays are values in our model; slicing one creates a slice aliasing it. We model the array cell as backing store
		// only when the array lives in an allocated cell (ref); then elements live in cell!(Array Int T)[ref].
		// To keep slices uniform we copy the array into a fresh backing store and mark the function if it is written later.
		ploc := c.derefLoc(base, x.X.Type())
		av := c.load(st, ploc)
		r := c.allocRef(st, g, "arrslice."+x.Name())
		en := c.elemNameT(arr.Elem())
		c.heapSet(st, en, c.sto(c.heapGet(st, en), r, av))
		c.warn("slice of array %s at %s: aliasing with the array is not modelled (copy semantics)", x.Name(), c.posOf(x.Pos()))
		ng := fr.mayPanicIfNew(g, mk(SBool, fmt.Sprintf("(or (< %s 0) (> %s %s) (> %s %d))", lo.S, lo.S, hi.S, hi.S, arr.Len())), st, "slice", x.Pos(), "slice bounds out of range")
		asl := c.define(x.Name(), mk(SSlice, fmt.Sprintf("(mk-slice %s %s (- %s %s))", r.S, lo.S, hi.S, lo.S)))
		fr.vals[x] = tv(asl)
		// remember which array the slice was cut from: copy(dst[:], src) writes the copied bytes back into the array
		// (the only way a slice of an array is written in the functions under contract)
		if fr.arrSlices == nil {
			fr.arrSlices = map[string]*Loc{}
		}
		fr.arrSlices[asl.S] = ploc
		return ng
	case *types.Basic: // string
		c.declareFun("gstr.sub", []Sort{SStr, SInt, SInt}, SStr)
		s := fr.term(x.X)
		if x.High != nil {
			hi = fr.term(x.High)
		} else {
			hi = app(SInt, "gstr.len", s)
		}
		ng := fr.mayPanicIfNew(g, mk(SBool, fmt.Sprintf("(or (< %s 0) (> %s %s) (> %s (gstr.len %s)))", lo.S, lo.S, hi.S, hi.S, s.S)), st, "slice", x.Pos(), "string slice bounds out of range")
		r := app(SStr, "gstr.sub", s, lo, hi)
		c.assumeG(g, tEq(app(SInt, "gstr.len", r), tSub(hi, lo)))
		fr.vals[x] = tv(r)
		return ng
	}
	c.unsupported("slice of %s", x.X.Type())
	fr.vals[x] = c.freshVal(st, g, x.Type(), x.Name())
	return nil
}

// ---------- interfaces ----------

func (c *Ctx) typeTag(t types.Type) *Term {
	key := typeName(t)
	id, ok := c.typeTags[key]
	if !ok {
		id = len(c.typeTags) + 1
		c.typeTags[key] = id
	}
	return intLit(int64(id))
}

// boxIface builds an interface value from a concrete value.
func (c *Ctx) boxIface(t types.Type, v *Term, st *State, g *Term) *Term {
	if _, ok := t.Underlying().(*types.Interface); ok {
		return v
	}
	s := c.sortOf(t)
	fn := "box!" + sanitize(string(s))
	un := "unbox!" + sanitize(string(s))
	c.declareFun(fn, []Sort{SInt, s}, SInt)
	c.declareFun(un, []Sort{SInt}, s)
	c.declareFun("itag", []Sort{SInt}, SInt)
	tag := c.typeTag(t)
	b := app(SInt, fn, tag, v)
	if !strings.Contains(v.S, "q!") {
		c.assume(mk(SBool, fmt.Sprintf("(and (> %s 0) (= (itag %s) %s) (= (%s %s) %s))", b.S, b.S, tag.S, un, b.S, v.S)))
	}
	return b
}

func (fr *Frame) typeAssert(x *ssa.TypeAssert, st *State, g *Term) *Term {
	c := fr.c
	iv := fr.get(x.X)
	c.declareFun("itag", []Sort{SInt}, SInt)
	at := x.AssertedType
	if _, isIface := at.Underlying().(*types.Interface); isIface {
		// interface-to-interface assertion: succeeds iff non-nil and dynamic type implements; opaque unless statically known
		var okT *Term
		if iv.Dyn != nil {
			if types.Implements(iv.Dyn, at.Underlying().(*types.Interface)) {
				okT = tTrue
			} else {
				okT = tFalse
			}
		} else {
			// whether the dynamic type implements the interface is a function of the dynamic type
			okT = c.implementsTerm(iv.T, at)
		}
		if x.CommaOk {
			fr.vals[x] = Val{Tuple: []Val{{T: tIte(okT, iv.T, intLit(0)), Dyn: iv.Dyn, DynV: iv.DynV}, tv(okT)}}
			return nil
		}
		ng := fr.mayPanicIfNew(g, tNot(okT), st, "typeassert", x.Pos(), "interface conversion")
		fr.vals[x] = iv
		return ng
	}
	s := c.sortOf(at)
	un := "unbox!" + sanitize(string(s))
	c.declareFun(un, []Sort{SInt}, s)
	tag := c.typeTag(at)
	okT := mk(SBool, fmt.Sprintf("(and (not (= %s 0)) (= (itag %s) %s))", iv.T.S, iv.T.S, tag.S))
	var payload Val
	if iv.Dyn != nil && types.Identical(iv.Dyn, at) && iv.DynV != nil {
		okT = tTrue
		payload = *iv.DynV
	} else {
		if iv.Dyn != nil && !types.Identical(iv.Dyn, at) {
			okT = tFalse
		}
		p := c.define(x.Name(), app(s, un, iv.T))
		c.assumeG(tAnd(g, okT), c.typeConstraint(at, p))
		c.assumeAllocated(st, tAnd(g, okT), at, p)
		payload = tv(p)
	}
	if x.CommaOk {
		z := c.zeroTerm(at)
		pv := payload
		if payload.T != nil {
			pv = tv(tIte(okT, payload.T, z))
		}
		fr.vals[x] = Val{Tuple: []Val{pv, tv(okT)}}
		return nil
	}
	ng := fr.mayPanicIfNew(g, tNot(okT), st, "typeassert", x.Pos(), "interface conversion: wrong dynamic type")
	fr.vals[x] = payload
	return ng
}

// ---------- range over maps / strings ----------

type rangeState struct {
	mapRef  *Term
	mt      *types.Map
	visited *Term // (Array K Bool) visited set term name (heap-like, per-iterator ghost)
	name    string
}

func (fr *Frame) rangeInit(x *ssa.Range, st *State, g *Term) *Term {
	c := fr.c
	mt, ok := x.X.Type().Underlying().(*types.Map)
	if !ok {
		c.unsupported("range over string at %s", c.posOf(x.Pos()))
		fr.vals[x] = tv(c.fresh("iter", SInt))
		return nil
	}
	// ghost: visited set of this iterator, kept in a heap name so that loops havoc it and invariants can mention it
	ks := c.mapKeySort(mt)
	// (the frame id of an inlined callee contains '>' and '#': not legal in an SMT symbol)
	name := c.heapName("iter!"+strings.ReplaceAll(sanitize(fr.id), "#", "_h")+"!"+x.Name(), ArrSort(ks, SBool))
	c.heapSet(st, name, mk(ArrSort(ks, SBool), fmt.Sprintf("((as const %s) false)", ArrSort(ks, SBool))))
	fr.vals[x] = tv(fr.term(x.X))
	if fr.iters == nil {
		fr.iters = map[ssa.Value]*rangeState{}
	}
	fr.iters[x] = &rangeState{mapRef: fr.term(x.X), mt: mt, name: name}
	return nil
}

func (fr *Frame) rangeNext(x *ssa.Next, st *State, g *Term) *Term {
	c := fr.c
	rs := fr.iters[x.Iter]
	if rs == nil {
		c.unsupported("next over non-map iterator at %s", c.posOf(x.Pos()))
		fr.vals[x] = c.freshVal(st, g, x.Type(), x.Name())
		return nil
	}
	dn, vn, _ := c.mapNames(rs.mt)
	ks := c.mapKeySort(rs.mt)
	dom := tSelect(c.heapGet(st, dn), rs.mapRef)
	visited := c.heapGet(st, rs.name)
	ok := c.fresh(x.Name()+".ok", SBool)
	goK := c.fresh(x.Name()+".k", c.sortOf(rs.mt.Key()))
	k := c.mapKey(rs.mt, goK)
	// ok  ==> k in dom, k not visited ; !ok ==> every key of dom is visited
	c.assumeG(g, mk(SBool, fmt.Sprintf("(=> %s (and (select %s %s) (not (select %s %s))))", ok.S, dom.S, k.S, visited.S, k.S)))
	q := c.fresh("qk", ks) // used via explicit quantifier below
	_ = q
	c.assumeG(g, mk(SBool, fmt.Sprintf("(=> (not %s) (forall ((qk %s)) (=> (select %s qk) (select %s qk))))", ok.S, ks, dom.S, visited.S)))
	c.assumeG(g, mk(SBool, fmt.Sprintf("(=> (= %s 0) (not %s))", rs.mapRef.S, ok.S)))
	c.assumeG(g, c.typeConstraint(rs.mt.Key(), goK))
	v := c.define(x.Name()+".v", tSelect(tSelect(c.heapGet(st, vn), rs.mapRef), k))
	c.assumeG(tAnd(g, ok), c.typeConstraint(rs.mt.Elem(), v))
	c.assumeLoadedRef(st, vn, rs.mt.Elem(), v, rs.mapRef)
	c.bornNow(v)
	c.heapSet(st, rs.name, tIte(ok, tStore(visited, k, tTrue), visited))
	fr.vals[x] = Val{Tuple: []Val{tv(ok), tv(goK), tv(v)}}
	return nil
}
