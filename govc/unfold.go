package main

import (
	"strings"
)

// recSpec is a recursive spec function: its unfolding equation is instantiated at the applications that occur in a query.
type recSpec struct {
	params []string // formal parameter symbols (p!x, h!name)
	body   string
}

const unfoldDepth = 2

// findApps returns the argument lists of all applications "(fn a1 ... an)" in text.
func findApps(text, fn string) [][]string {
	var out [][]string
	pat := "(" + fn + " "
	i := 0
	for {
		j := strings.Index(text[i:], pat)
		if j < 0 {
			break
		}
		start := i + j
		k := start + len(pat)
		var args []string
		for k < len(text) {
			for k < len(text) && text[k] == ' ' {
				k++
			}
			if k < len(text) && text[k] == ')' {
				break
			}
			e := k
			if text[k] == '(' {
				e = skipSexp(text, k)
			} else {
				for e < len(text) && text[e] != ' ' && text[e] != ')' {
					e++
				}
			}
			args = append(args, text[k:e])
			k = e
		}
		out = append(out, args)
		i = start + len(pat)
	}
	return out
}

// substTokens replaces whole-token occurrences of the formals by the actuals.
func substTokens(body string, formals, actuals []string) string {
	m := map[string]string{}
	for i, f := range formals {
		m[f] = actuals[i]
	}
	var b strings.Builder
	i := 0
	n := len(body)
	for i < n {
		ch := body[i]
		if ch == '(' || ch == ')' || ch == ' ' {
			b.WriteByte(ch)
			i++
			continue
		}
		j := i
		for j < n && body[j] != '(' && body[j] != ')' && body[j] != ' ' {
			j++
		}
		tok := body[i:j]
		if r, ok := m[tok]; ok {
			b.WriteString(r)
		} else {
			b.WriteString(tok)
		}
		i = j
	}
	return b.String()
}

// unfoldInstances returns the ground unfolding equations for the recursive spec applications occurring in text.
func (c *Ctx) unfoldInstances(text string) []string {
	if len(c.recSpecs) == 0 {
		return nil
	}
	var out []string
	seen := map[string]bool{}
	frontier := text
	for d := 0; d < unfoldDepth; d++ {
		var next strings.Builder
		for fn, rs := range c.recSpecs {
			for _, args := range findApps(frontier, fn) {
				if len(args) != len(rs.params) {
					continue
				}
				app := "(" + fn + " " + strings.Join(args, " ") + ")"
				if seen[app] {
					continue
				}
				seen[app] = true
				inst := substTokens(rs.body, rs.params, args)
				out = append(out, "(= "+app+" "+inst+")")
				next.WriteString(inst)
				next.WriteByte('\n')
			}
		}
		frontier = next.String()
		if frontier == "" {
			break
		}
	}
	return out
}
