package main

import (
	"strings"
)

// recSpec is a recursive spec function: its unfolding equation is instantiated at the applications that occur in a query.
type recSpec struct {
	params []string // formal parameter symbols (p!x, h!name)
	body   string
}

const unfoldDepth = 2

// findApps returns the argument lists of all applications "(fn a1 ... an)" in text.
func findApps(text, fn string) [][]string {
	var out [][]string
	pat := "(" + fn + " "
	i := 0
	for {
		j := strings.Index(text[i:], pat)
		if j < 0 {
			break
		}
		start := i + j
		k := start + len(pat)
		var args []string
		for k < len(text) {
			for k < len(text) && text[k] == ' ' {
				k++
			}
			if k < len(text) && text[k] == ')' {
				break
			}
			e := k
			if text[k] == '(' {
				e = skipSexp(text, k)
			} else {
				for e < len(text) && text[e] != ' ' && text[e] != ')' {
					e++
				}
			}
			args = append(args, text[k:e])
			k = e
		}
		out = append(out, args)
		i = start + len(pat)
	}
	return out
}

// substTokens replaces whole-token occurrences of the formals by the actuals.
func substTokens(body string, formals, actuals []string) string {
	m := map[string]string{}
	for i, f := range formals {
		m[f] = actuals[i]
	}
	var b strings.Builder
	i := 0
	n := len(body)
	for i < n {
		ch := body[i]
		if ch == '(' || ch == ')' || ch == ' ' {
			b.WriteByte(ch)
			i++
			continue
		}
		j := i
		for j < n && body[j] != '(' && body[j] != ')' && body[j] != ' ' {
			j++
		}
		tok := body[i:j]
		if r, ok := m[tok]; ok {
			b.WriteString(r)
		} else {
			b.WriteString(tok)
		}
		i = j
	}
	return b.String()
}

// foldConstArith folds (+ k1 k2) and (- k1 k2) over non-negative numerals (to a fixpoint), so that the recursion counter
// of an instance such as slashKeep(l, (- 24 1)) is again a numeral.
func foldConstArith(s string) string {
	for {
		changed := false
		var b strings.Builder
		i := 0
		for i < len(s) {
			if s[i] == '(' && i+2 < len(s) && (s[i+1] == '+' || s[i+1] == '-') && s[i+2] == ' ' {
				// try to parse "(op d1 d2)"
				j := i + 3
				k := j
				for k < len(s) && s[k] >= '0' && s[k] <= '9' {
					k++
				}
				if k > j && k < len(s) && s[k] == ' ' {
					l := k + 1
					m := l
					for m < len(s) && s[m] >= '0' && s[m] <= '9' {
						m++
					}
					if m > l && m < len(s) && s[m] == ')' && k-j < 18 && m-l < 18 {
						var a, c int64
						for _, ch := range s[j:k] {
							a = a*10 + int64(ch-'0')
						}
						for _, ch := range s[l:m] {
							c = c*10 + int64(ch-'0')
						}
						r := a + c
						if s[i+1] == '-' {
							r = a - c
						}
						if r >= 0 {
							b.WriteString(strconvItoa(r))
						} else {
							b.WriteString("(- " + strconvItoa(-r) + ")")
						}
						i = m + 1
						changed = true
						continue
					}
				}
			}
			b.WriteByte(s[i])
			i++
		}
		s = b.String()
		if !changed {
			return s
		}
	}
}

func strconvItoa(n int64) string {
	if n == 0 {
		return "0"
	}
	var d []byte
	for n > 0 {
		d = append([]byte{byte('0' + n%10)}, d...)
		n /= 10
	}
	return string(d)
}

func hasNumeralArg(args []string) bool {
	for _, a := range args {
		if a != "" && isNumLit(a) {
			return true
		}
	}
	return false
}

const unfoldDepthConst = 70

// unfoldInstances returns the ground unfolding equations for the recursive spec applications occurring in text.
// Applications whose recursion counter is a numeral (a bound known at verification time, e.g. the 24-block absence
// window) are unfolded all the way down; symbolic ones to depth unfoldDepth.
func (c *Ctx) unfoldInstances(text string) []string {
	if len(c.recSpecs) == 0 {
		return nil
	}
	var out []string
	seen := map[string]bool{}
	frontier := text
	for d := 0; d < unfoldDepthConst; d++ {
		var next strings.Builder
		for fn, rs := range c.recSpecs {
			for _, args := range findApps(frontier, fn) {
				if len(args) != len(rs.params) {
					continue
				}
				if d >= unfoldDepth && !hasNumeralArg(args) {
					continue
				}
				app := "(" + fn + " " + strings.Join(args, " ") + ")"
				if seen[app] {
					continue
				}
				seen[app] = true
				inst := foldConstArith(substTokens(rs.body, rs.params, args))
				out = append(out, "(= "+app+" "+inst+")")
				next.WriteString(inst)
				next.WriteByte('\n')
			}
		}
		frontier = next.String()
		if frontier == "" {
			break
		}
	}
	return out
}
