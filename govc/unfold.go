package main

import (
	"strings"
)

// recSpec is a recursive spec function: its unfolding equation is instantiated at the applications that occur in a query.
type recSpec struct {
	params []string // formal parameter symbols (p!x, h!name)
	body   string
}

const unfoldDepth = 2

// findApps returns the argument lists of all applications "(fn a1 ... an)" in text.
func findApps(text, fn string) [][]string {
	var out [][]string
	pat := "(" + fn + " "
	i := 0
	for {
		j := strings.Index(text[i:], pat)
		if j < 0 {
			break
		}
		start := i + j
		k := start + len(pat)
		var args []string
		for k < len(text) {
			for k < len(text) && text[k] == ' ' {
				k++
			}
			if k < len(text) && text[k] == ')' {
				break
			}
			e := k
			if text[k] == '(' {
				e = skipSexp(text, k)
			} else {
				for e < len(text) && text[e] != ' ' && text[e] != ')' {
					e++
				}
			}
			args = append(args, text[k:e])
			k = e
		}
		out = append(out, args)
		i = start + len(pat)
	}
	return out
}

// substTokens replaces whole-token occurrences of the formals by the actuals.
func substTokens(body string, formals, actuals []string) string {
	m := map[string]string{}
	for i, f := range formals {
		m[f] = actuals[i]
	}
	var b strings.Builder
	i := 0
	n := len(body)
	for i < n {
		ch := body[i]
		if ch == '(' || ch == ')' || ch == ' ' {
			b.WriteByte(ch)
			i++
			continue
		}
		j := i
		for j < n && body[j] != '(' && body[j] != ')' && body[j] != ' ' {
			j++
		}
		tok := body[i:j]
		if r, ok := m[tok]; ok {
			b.WriteString(r)
		} else {
			b.WriteString(tok)
		}
		i = j
	}
	return b.String()
}

// foldConstArith folds (+ k1 k2) and (- k1 k2) over non-negative numerals (to a fixpoint), so that the recursion counter
// of an instance such as slashKeep(l, (- 24 1)) is again a numeral.
func foldConstArith(s string) string {
	for {
		changed := false
		var b strings.Builder
		i := 0
		for i < len(s) {
			if s[i] == '(' && i+2 < len(s) && (s[i+1] == '+' || s[i+1] == '-') && s[i+2] == ' ' {
				// try to parse "(op d1 d2)"
				j := i + 3
				k := j
				for k < len(s) && s[k] >= '0' && s[k] <= '9' {
					k++
				}
				if k > j && k < len(s) && s[k] == ' ' {
					l := k + 1
					m := l
					for m < len(s) && s[m] >= '0' && s[m] <= '9' {
						m++
					}
					if m > l && m < len(s) && s[m] == ')' && k-j < 18 && m-l < 18 {
						var a, c int64
						for _, ch := range s[j:k] {
							a = a*10 + int64(ch-'0')
						}
						for _, ch := range s[l:m] {
							c = c*10 + int64(ch-'0')
						}
						r := a + c
						if s[i+1] == '-' {
							r = a - c
						}
						if r >= 0 {
							b.WriteString(strconvItoa(r))
						} else {
							b.WriteString("(- " + strconvItoa(-r) + ")")
						}
						i = m + 1
						changed = true
						continue
					}
				}
			}
			b.WriteByte(s[i])
			i++
		}
		s = b.String()
		if !changed {
			return s
		}
	}
}

func strconvItoa(n int64) string {
	if n == 0 {
		return "0"
	}
	var d []byte
	for n > 0 {
		d = append([]byte{byte('0' + n%10)}, d...)
		n /= 10
	}
	return string(d)
}

func hasNumeralArg(args []string) bool {
	for _, a := range args {
		if a != "" && isNumLit(a) {
			return true
		}
	}
	return false
}

// boundVarsOf returns the binder list "(q!a S1) (q!b S2)" for the quantified variables (names starting with q!) that
// occur in app, with the sorts they are bound with somewhere in text; "" if a sort cannot be found.
func boundVarsOf(app, text string) string {
	var names []string
	seen := map[string]bool{}
	for i := 0; i+2 <= len(app); i++ {
		if app[i] == 'q' && app[i+1] == '!' && (i == 0 || app[i-1] == ' ' || app[i-1] == '(') {
			j := i
			for j < len(app) && app[j] != ' ' && app[j] != ')' && app[j] != '(' {
				j++
			}
			n := app[i:j]
			if !seen[n] {
				seen[n] = true
				names = append(names, n)
			}
		}
	}
	var out []string
	for _, n := range names {
		pat := "(" + n + " "
		k := strings.Index(text, pat)
		found := ""
		for k >= 0 {
			// a binder looks like "(q!k Int)" or "(q!a Key.x)": one more token and a closing parenthesis
			rest := text[k+len(pat):]
			e := strings.IndexAny(rest, " ()")
			if e > 0 && rest[e] == ')' {
				found = rest[:e]
				break
			}
			nk := strings.Index(text[k+1:], pat)
			if nk < 0 {
				break
			}
			k = k + 1 + nk
		}
		if found == "" {
			return ""
		}
		out = append(out, "("+n+" "+found+")")
	}
	return strings.Join(out, " ")
}

const unfoldDepthConst = 70

// unfoldInstances returns the ground unfolding equations for the recursive spec applications occurring in text.
// Applications whose recursion counter is a numeral (a bound known at verification time, e.g. the 24-block absence
// window) are unfolded all the way down; symbolic ones to depth unfoldDepth.
func (c *Ctx) unfoldInstances(text string) []string {
	if len(c.recSpecs) == 0 {
		return nil
	}
	var out []string
	seen := map[string]bool{}
	frontier := text
	// beyond unfoldDepth only chains whose numeral counter strictly decreases are followed (absentCount(b, 24) -> 23 ->
	// ...); a counter that grows (a sum taken from index 0 upwards) is a symbolic bound in disguise
	prevMin := int64(1) << 62
	for d := 0; d < unfoldDepthConst; d++ {
		var next strings.Builder
		curMin := int64(1) << 62
		for fn, rs := range c.recSpecs {
			for _, args := range findApps(frontier, fn) {
				if len(args) != len(rs.params) {
					continue
				}
				if mn, ok := minNumeralArg(args); ok {
					if d >= unfoldDepth && mn >= prevMin {
						continue
					}
					if mn < curMin {
						curMin = mn
					}
				} else if d >= unfoldDepth {
					continue
				}
				app := "(" + fn + " " + strings.Join(args, " ") + ")"
				if seen[app] {
					continue
				}
				seen[app] = true
				inst := foldConstArith(substTokens(rs.body, rs.params, args))
				if strings.Contains(app, "q!") {
					// the application sits under a quantifier and mentions its bound variables: the unfolding equation is
					// stated for all values of those variables, triggered by the application itself (and not unfolded
					// further, so that it cannot feed itself)
					binds := boundVarsOf(app, text)
					if binds == "" {
						continue
					}
					out = append(out, "(forall ("+binds+") (! (= "+app+" "+inst+") :pattern ("+app+")))")
					continue
				}
				out = append(out, "(= "+app+" "+inst+")")
				next.WriteString(inst)
				next.WriteByte('\n')
			}
		}
		frontier = next.String()
		if frontier == "" {
			break
		}
		prevMin = curMin
	}
	return out
}

// minNumeralArg returns the smallest numeral among the arguments of an application, if there is one.
func minNumeralArg(args []string) (int64, bool) {
	best, ok := int64(0), false
	for _, a := range args {
		if a == "" || !isNumLit(a) || len(a) > 15 {
			continue
		}
		var n int64
		for _, ch := range a {
			n = n*10 + int64(ch-'0')
		}
		if !ok || n < best {
			best, ok = n, true
		}
	}
	return best, ok
}
