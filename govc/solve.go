package main

import (
	"bytes"
	"context"
	"fmt"
	"os"
	"os/exec"
	"path/filepath"
	"strings"
	"sync"
	"time"
)

// symbols extracts the declared symbols occurring in an SMT text.
func (c *Ctx) symbolsOf(text string) []string {
	var out []string
	seen := map[string]bool{}
	i := 0
	n := len(text)
	for i < n {
		ch := text[i]
		if ch == '(' || ch == ')' || ch == ' ' || ch == '\n' || ch == '\t' {
			i++
			continue
		}
		j := i
		for j < n && text[j] != '(' && text[j] != ')' && text[j] != ' ' && text[j] != '\n' && text[j] != '\t' {
			j++
		}
		tok := text[i:j]
		i = j
		if seen[tok] {
			continue
		}
		if _, ok := c.declared[tok]; ok {
			seen[tok] = true
			out = append(out, tok)
		}
	}
	return out
}

func isGuardSym(s string) bool { return strings.HasPrefix(s, "g.") }

// BuildQuery renders the SMT-LIB text for one obligation, sliced to its cone of influence.
func (c *Ctx) BuildQuery(o *Obligation, produceModels bool) (string, int) {
	for _, a := range c.asserts {
		if a.Syms == nil {
			a.Syms = c.symbolsOf(a.Text)
			if a.Syms == nil {
				a.Syms = []string{}
			}
		}
	}
	relevant := map[string]bool{}
	var queue []string
	// bodies of defined functions (spec functions with a body): their symbols are relevant when the function is
	defBody := map[string]string{}
	for _, d := range c.decls {
		if strings.HasPrefix(d, "(define-fun") {
			if f := strings.Fields(d); len(f) >= 2 {
				defBody[f[1]] = d
			}
		}
	}
	var add func(s string)
	add = func(s string) {
		if !relevant[s] {
			relevant[s] = true
			queue = append(queue, s)
			if d, ok := defBody[s]; ok {
				for _, bs := range c.symbolsOf(d) {
					add(bs)
				}
			}
		}
	}
	for _, s := range c.symbolsOf(o.Guard.S) {
		add(s)
	}
	for _, s := range c.symbolsOf(o.Goal.S) {
		add(s)
	}
	if produceModels {
		for _, w := range o.Witness {
			for _, s := range c.symbolsOf(w.S) {
				add(s)
			}
		}
	}
	included := make([]bool, len(c.asserts))
	// index: def symbol -> assertion indices ; symbol -> assumption indices
	defIdx := map[string][]int{}
	useIdx := map[string][]int{}
	for i, a := range c.asserts {
		if a.Seq >= o.Seq {
			continue
		}
		if a.FromObl != "" && c.noAssume[a.FromObl] {
			continue
		}
		if a.NeedTag != "" && !o.Tags[a.NeedTag] {
			continue
		}
		if o.Top >= 0 && c.topAnc != nil && !a.Always {
			// path-based slicing: only what was assumed/defined in blocks that can reach the obligation's block
			anc := c.topAnc[o.Top]
			if a.HasPred {
				if a.Pred != o.Top && !anc[a.Pred] {
					continue
				}
			} else if tb := c.topBlockOf(i); tb >= 0 && tb != o.Top && !anc[tb] {
				continue
			}
		}
		if o.ExpectFail && strings.Contains(a.Text, "(forall ") {
			// reachability probes must be decidable as sat: quantified hypotheses are dropped (fewer hypotheses only make the probe weaker)
			continue
		}
		if a.Def != "" {
			defIdx[a.Def] = append(defIdx[a.Def], i)
		} else {
			for _, s := range a.Syms {
				if !isGuardSym(s) {
					useIdx[s] = append(useIdx[s], i)
				}
			}
		}
	}
	include := func(i int) {
		if included[i] {
			return
		}
		included[i] = true
		for _, s := range c.asserts[i].Syms {
			add(s)
		}
	}
	for len(queue) > 0 {
		s := queue[0]
		queue = queue[1:]
		for _, i := range defIdx[s] {
			include(i)
		}
		for _, i := range useIdx[s] {
			include(i)
		}
	}
	// assumptions without any non-guard symbol (rare) are always included
	for i, a := range c.asserts {
		if a.Seq < o.Seq && a.Def == "" && !included[i] {
			all := true
			for _, s := range a.Syms {
				if !isGuardSym(s) {
					all = false
				}
			}
			if all && len(a.Syms) == 0 {
				included[i] = true
			}
		}
	}
	var b strings.Builder
	if produceModels {
		b.WriteString("(set-option :produce-models true)\n")
	}
	b.WriteString("(set-logic ALL)\n")
	if o.ExpectFail {
		// reachability probes need a definite "sat": no quantified axiom in the prelude
		b.WriteString(strings.Replace(prelude, "(declare-fun sidx (Slice Int) Int)\n(assert (forall ((s Slice) (i Int)) (! (= (sidx s i) (+ (s.off s) i)) :pattern ((sidx s i)))))", "(define-fun sidx ((s Slice) (i Int)) Int (+ (s.off s) i))", 1))
	} else {
		b.WriteString(prelude)
	}
	for _, d := range c.sortDecls {
		b.WriteString(d)
		b.WriteByte('\n')
	}
	// ground unfolding of recursive spec functions at the applications that occur in this query
	var hyp strings.Builder
	for i, a := range c.asserts {
		if included[i] {
			hyp.WriteString(a.Text)
			hyp.WriteByte('\n')
		}
	}
	hyp.WriteString(o.Guard.S)
	hyp.WriteByte('\n')
	hyp.WriteString(o.Goal.S)
	unfolds := c.unfoldInstances(hyp.String())
	// ground instances of the index axiom (sidx s k) = (s.off s) + k for numeral k: spares the solvers the quantifier
	// instantiation in byte-level arithmetic goals (putint: cvc5 2 s with them, > 200 s without)
	{
		seenIdx := map[string]bool{}
		for _, args := range findApps(hyp.String(), "sidx") {
			if len(args) != 2 || !isNumLit(args[1]) || strings.Contains(args[0], "q!") || seenIdx[args[0]+"|"+args[1]] {
				continue
			}
			seenIdx[args[0]+"|"+args[1]] = true
			unfolds = append(unfolds, fmt.Sprintf("(= (sidx %s %s) (+ (s.off %s) %s))", args[0], args[1], args[0], args[1]))
		}
	}
	// declarations actually used
	used := map[string]bool{}
	for s := range relevant {
		used[s] = true
	}
	for _, u := range unfolds {
		for _, s := range c.symbolsOf(u) {
			used[s] = true
		}
	}
	// defined functions pull in the symbols of their bodies
	for changed := true; changed; {
		changed = false
		for _, d := range c.decls {
			if !strings.HasPrefix(d, "(define-fun") {
				continue
			}
			f := strings.Fields(d)
			if len(f) < 2 || !used[f[1]] || used["#body:"+f[1]] {
				continue
			}
			used["#body:"+f[1]] = true
			for _, s := range c.symbolsOf(d) {
				if !used[s] {
					used[s] = true
					changed = true
				}
			}
		}
	}
	for _, d := range c.decls {
		if strings.HasPrefix(d, "(define-fun") {
			f := strings.Fields(d)
			if len(f) >= 2 && used[f[1]] {
				b.WriteString(d)
				b.WriteByte('\n')
			}
			continue
		}
		// (declare-const name sort) / (declare-fun name ...)
		f := strings.Fields(d)
		if len(f) >= 2 && used[f[1]] {
			b.WriteString(d)
			b.WriteByte('\n')
		}
	}
	nh := 0
	for i, a := range c.asserts {
		if included[i] {
			b.WriteString("(assert ")
			b.WriteString(a.Text)
			b.WriteString(")\n")
			nh++
		}
	}
	for _, u := range unfolds {
		b.WriteString("(assert " + u + ")\n")
	}
	b.WriteString("(assert " + o.Guard.S + ")\n")
	b.WriteString("(assert (not " + o.Goal.S + "))\n")
	b.WriteString("(check-sat)\n")
	if produceModels && len(o.Witness) > 0 {
		var ws []string
		for _, w := range o.Witness {
			ws = append(ws, w.S)
		}
		b.WriteString("(get-value (" + strings.Join(ws, " ") + "))\n")
	}
	return b.String(), nh
}

type solverSpec struct {
	name string
	args func(file string, timeoutS int) []string
}

var solvers = []solverSpec{
	{"z3-new", func(f string, t int) []string { return []string{"z3-new", fmt.Sprintf("-T:%d", t), f} }},
	{"z3", func(f string, t int) []string { return []string{"z3", fmt.Sprintf("-T:%d", t), f} }},
	{"cvc5", func(f string, t int) []string {
		return []string{"cvc5", "--produce-models", fmt.Sprintf("--tlimit=%d", t*1000), f}
	}},
}

type solveResult struct {
	status string
	out    string
	ms     int64
	solver string
}

func runSolver(ctx context.Context, sp solverSpec, file string, timeoutS int) solveResult {
	args := sp.args(file, timeoutS)
	cctx, cancel := context.WithTimeout(ctx, time.Duration(timeoutS+2)*time.Second)
	defer cancel()
	cmd := exec.CommandContext(cctx, args[0], args[1:]...)
	var out bytes.Buffer
	cmd.Stdout = &out
	cmd.Stderr = &out
	t0 := time.Now()
	_ = cmd.Run()
	ms := time.Since(t0).Milliseconds()
	text := out.String()
	first := strings.TrimSpace(strings.SplitN(text, "\n", 2)[0])
	status := "unknown"
	switch first {
	case "unsat", "sat":
		status = first
	case "unknown", "timeout":
		status = first
	default:
		if strings.Contains(first, "error") || strings.Contains(text, "(error") {
			status = "error"
		}
		if cctx.Err() != nil {
			status = "timeout"
		}
	}
	return solveResult{status: status, out: text, ms: ms, solver: sp.name}
}

// Solve decides one obligation with the solver portfolio.
func Solve(o *Obligation, scratch string, quickCap, fullCap int, crossCheck bool) {
	if o.Status != "" {
		return
	}
	c := o.Unit
	defer func() {
		// a counterexample was found: ask again with the witness terms (function inputs) to get their model values
		if o.Status == "sat" && !o.ExpectFail && len(o.Witness) > 0 {
			extractModel(o, scratch, fullCap)
		}
	}()
	q, nh := c.BuildQuery(o, false)
	o.Size = len(q)
	o.NHyp = nh
	file := filepath.Join(scratch, sanitize(o.Name)+".smt2")
	if len(file) > 200 {
		file = filepath.Join(scratch, fmt.Sprintf("q%x.smt2", hashStr(o.Name)))
	}
	if err := os.WriteFile(file, []byte(q), 0o644); err != nil {
		o.Status = "error"
		o.Output = err.Error()
		return
	}
	ctx := context.Background()
	// stage 1: z3-new alone, short - for quantified queries together with its E-matching-only configuration (see the
	// contender in stage 2), whose "unsat" is taken if it comes first
	var r solveResult
	if strings.Contains(q, "(forall") && !o.ExpectFail {
		s1ctx, s1cancel := context.WithCancel(ctx)
		s1 := make(chan solveResult, 2)
		go func() { s1 <- runSolver(s1ctx, solvers[0], file, quickCap) }()
		go func() {
			sp := solverSpec{"z3-new/ematching", func(f string, t int) []string {
				return []string{"z3-new", fmt.Sprintf("-T:%d", t), "smt.auto_config=false", "smt.mbqi=false", f}
			}}
			er := runSolver(s1ctx, sp, file, quickCap)
			if er.status != "unsat" {
				er.status, er.out = "unknown", "(e-matching-only run undecided)"
			}
			s1 <- er
		}()
		a := <-s1
		if a.status == "unsat" || a.status == "sat" {
			r = a
		} else {
			b := <-s1
			if b.status == "unsat" || b.status == "sat" || a.solver != solvers[0].name {
				r = b
			} else {
				r = a
			}
		}
		s1cancel()
	} else {
		r = runSolver(ctx, solvers[0], file, quickCap)
	}
	if r.status == "unsat" || r.status == "sat" {
		o.Status, o.Solver, o.Ms, o.Output = r.status, r.solver, r.ms, r.out
		if r.status == "sat" {
			o.Model = parseModel(r.out)
		}
		if crossCheck && r.status == "unsat" {
			crossCheckObl(o, file, fullCap)
		}
		if !(r.status == "sat" && o.ExpectFail) {
			os.Remove(file)
		} else {
			os.Remove(file)
		}
		return
	}
	firstErr := r
	// stage 2: race all three with the full cap
	rctx, cancel := context.WithCancel(ctx)
	defer cancel()
	ch := make(chan solveResult, len(solvers)+1)
	var wg sync.WaitGroup
	for _, sp := range solvers {
		wg.Add(1)
		go func(sp solverSpec) {
			defer wg.Done()
			ch <- runSolver(rctx, sp, file, fullCap)
		}(sp)
	}
	// a fourth contender for goals over truncated division: the same query with quoT left uninterpreted. Every model
	// of the original query is a model of the abstracted one (interpret quoT by its definition), so "unsat" carries
	// over; any other answer of this contender is discarded (never a counterexample, never an error). It decides
	// "the code computes this quotient expression" by congruence, where the solvers do not finish on the nonlinear
	// div terms themselves.
	if absQ, ok := abstractQuo(q); ok && !o.ExpectFail {
		absFile := strings.TrimSuffix(file, ".smt2") + ".quo-uf.smt2"
		if os.WriteFile(absFile, []byte(absQ), 0o644) == nil {
			defer os.Remove(absFile)
			wg.Add(1)
			go func() {
				defer wg.Done()
				r := runSolver(rctx, solvers[0], absFile, fullCap)
				r.solver += "/quo-uninterpreted"
				if r.status != "unsat" {
					r.status, r.out = "unknown", "(abstracted query undecided)"
				}
				ch <- r
			}()
		}
	}
	// a further contender: z3 with its automatic strategy selection and model-based quantifier instantiation switched
	// off, i.e. plain E-matching on the (explicit and inferred) triggers. On large queries the automatic configuration
	// sometimes never instantiates the one universally quantified hypothesis that closes the goal; this one does so at
	// once. Only its "unsat" is used (a proof found by a different search strategy is still a proof); without MBQI it
	// cannot establish "sat" for quantified queries, and whatever else it answers is discarded.
	if strings.Contains(q, "(forall") && !o.ExpectFail {
		wg.Add(1)
		go func() {
			defer wg.Done()
			sp := solverSpec{"z3-new/ematching", func(f string, t int) []string {
				return []string{"z3-new", fmt.Sprintf("-T:%d", t), "smt.auto_config=false", "smt.mbqi=false", f}
			}}
			r := runSolver(rctx, sp, file, fullCap)
			if r.status != "unsat" {
				r.status, r.out = "unknown", "(e-matching-only run undecided)"
			}
			ch <- r
		}()
	}
	go func() { wg.Wait(); close(ch) }()
	var total int64 = r.ms
	var last solveResult = firstErr
	nerr, nres := 0, 0
	if firstErr.status == "error" {
		nerr++
	}
	nres++
	for res := range ch {
		nres++
		if res.status == "error" {
			nerr++
		}
		if res.status == "unsat" || res.status == "sat" {
			cancel()
			o.Status, o.Solver, o.Ms, o.Output = res.status, res.solver, total+res.ms, res.out
			if res.status == "sat" {
				o.Model = parseModel(res.out)
			}
			os.Remove(file)
			return
		}
		if last.status == "error" && res.status != "error" {
			last = res
		}
		if res.ms > total {
			total = res.ms
		}
	}
	o.Status, o.Solver, o.Ms, o.Output = last.status, last.solver, total, last.out
	if o.Status == "sat" || o.Status == "unsat" {
		o.Status = "unknown"
	}
	if nerr < nres && o.Status == "error" {
		o.Status = "unknown"
	}
	// keep the query of an undecided obligation for inspection
	keep := filepath.Join(scratch, "undecided")
	os.MkdirAll(keep, 0o755)
	os.Rename(file, filepath.Join(keep, filepath.Base(file)))
}

const quoDef = "(define-fun quoT ((a Int) (b Int)) Int (ite (>= a 0) (div a b) (- (div (- a) b))))"

// abstractQuo replaces the definition of truncated division by a declaration, if the query applies quoT at all.
func abstractQuo(q string) (string, bool) {
	if !strings.Contains(q, quoDef) || strings.Count(q, "(quoT ") < 2 { // the definition of remT holds one application
		return "", false
	}
	return strings.Replace(q, quoDef, "(declare-fun quoT (Int Int) Int)", 1), true
}

func crossCheckObl(o *Obligation, file string, cap int) {
	for _, sp := range solvers[1:] {
		r := runSolver(context.Background(), sp, file, cap)
		if r.status == "sat" {
			o.Status = "error"
			o.Output = "solver disagreement: " + o.Solver + " says unsat, " + sp.name + " says sat"
			return
		}
	}
}

func hashStr(s string) uint32 {
	var h uint32 = 2166136261
	for i := 0; i < len(s); i++ {
		h ^= uint32(s[i])
		h *= 16777619
	}
	return h
}

// parseModel reads the "(get-value ...)" answer: ((term value) ...).
func parseModel(out string) map[string]string {
	m := map[string]string{}
	i := strings.Index(out, "\n")
	if i < 0 {
		return m
	}
	s := strings.TrimSpace(out[i+1:])
	if !strings.HasPrefix(s, "(") {
		return m
	}
	// strip outer parens
	depth := 0
	start := -1
	npairs := 0
	for k := 0; k < len(s); k++ {
		switch s[k] {
		case '(':
			depth++
			if depth == 2 {
				start = k
			}
		case ')':
			if depth == 2 && start >= 0 {
				pair := s[start+1 : k]
				// split into term and value: term is first s-expression
				j := skipSexp(pair, 0)
				term := strings.TrimSpace(pair[:j])
				val := strings.TrimSpace(pair[j:])
				m[term] = val
				m[fmt.Sprintf("#%d", npairs)] = val // positional: the k-th witness term
				npairs++
				start = -1
			}
			depth--
			if depth == 0 {
				return m
			}
		}
	}
	return m
}

// SolveAll decides all obligations in parallel.
func SolveAll(obls []*Obligation, scratch string, workers, quickCap, fullCap int, crossCheck bool) {
	os.MkdirAll(scratch, 0o755)
	ch := make(chan *Obligation)
	var wg sync.WaitGroup
	for w := 0; w < workers; w++ {
		wg.Add(1)
		go func() {
			defer wg.Done()
			for o := range ch {
				Solve(o, scratch, quickCap, fullCap, crossCheck)
			}
		}()
	}
	for _, o := range obls {
		ch <- o
	}
	close(ch)
	wg.Wait()
}
