package main

import (
	"fmt"
	"strings"
)

// keySort / wrapKey: values of array sort used as indices (map keys, ghost-function keys) are wrapped into an
// uninterpreted key sort through an injective function, because cvc5 rejects arrays indexed by arrays.
func (c *Ctx) keySort(ks Sort) Sort {
	if strings.HasPrefix(string(ks), "(Array ") {
		name := "Key." + sanitize(string(ks))
		if !c.dtDecls[name] {
			c.dtDecls[name] = true
			c.sortDecls = append(c.sortDecls, fmt.Sprintf("(declare-sort %s 0)", name))
		}
		return Sort(name)
	}
	return ks
}

func (c *Ctx) wrapKey(k *Term) *Term {
	ks := k.Sort
	if !strings.HasPrefix(string(ks), "(Array ") {
		return k
	}
	kk := c.keySort(ks)
	fn := "key!" + sanitize(string(ks))
	un := "unkey!" + sanitize(string(ks))
	if _, ok := c.declared[fn]; !ok {
		c.declareFun(fn, []Sort{ks}, kk)
		c.declareFun(un, []Sort{kk}, ks)
		// key! is a bijection between the array values and the key sort
		c.asserts = append(c.asserts, &Assertion{Seq: 0, Text: fmt.Sprintf("(forall ((ka %s)) (! (= (%s (%s ka)) ka) :pattern ((%s ka))))", ks, un, fn, fn)})
		c.asserts = append(c.asserts, &Assertion{Seq: 0, Text: fmt.Sprintf("(forall ((kk %s)) (! (= (%s (%s kk)) kk) :pattern ((%s kk))))", kk, fn, un, un)})
	}
	if pre := "(" + un + " "; strings.HasPrefix(k.S, pre) && strings.HasSuffix(k.S, ")") {
		inner := k.S[len(pre) : len(k.S)-1]
		if !strings.ContainsAny(inner, " ()") {
			return mk(kk, inner) // key!(unkey!(q)) = q
		}
	}
	return app(kk, fn, k)
}
