package main

import (
	"fmt"
	"go/types"
	"math/big"
	"strings"

	"golang.org/x/tools/go/ssa"
)

// libModel gives built-in semantics to standard-library functions. ok=false means "no model".
func (fr *Frame) libModel(fn *ssa.Function, full string, args []Val, st *State, g *Term, site ssa.Instruction, resType types.Type) (Val, *Term, bool) {
	c := fr.c
	pos := fn.Pos()
	if site != nil {
		pos = site.Pos()
	}
	T := func(i int) *Term { return c.valTerm(args[i], "arg") }
	cur := g
	nonNil := func(i int) {
		if args[i].T != nil {
			ng := fr.mayPanicIf(cur, tEq(args[i].T, intLit(0)), st, "nil", pos, "nil *big value passed to "+full)
			cur = ng
		}
	}
	done := func(v Val) (Val, *Term, bool) {
		if cur.S == g.S {
			return v, nil, true
		}
		return v, cur, true
	}
	bigval := func() *Term { return c.heapGet(st, c.bigvalName()) }
	bv := func(i int) *Term { return c.sel(bigval(), T(i)) }
	setBig := func(ref, val *Term) { c.heapSet(st, c.bigvalName(), c.sto(bigval(), ref, val)) }
	realval := func() *Term { return c.heapGet(st, c.realvalName()) }
	rv := func(i int) *Term { return c.sel(realval(), T(i)) }
	setReal := func(ref, val *Term) { c.heapSet(st, c.realvalName(), c.sto(realval(), ref, val)) }
	newBig := func(val *Term, hint string) *Term {
		r := c.allocRef(st, g, hint)
		setBig(r, val)
		return r
	}
	newReal := func(val *Term, hint string) *Term {
		r := c.allocRef(st, g, hint)
		setReal(r, val)
		return r
	}

	switch {
	case strings.HasPrefix(full, "(*math/big.Int)."):
		m := strings.TrimPrefix(full, "(*math/big.Int).")
		switch m {
		case "Add", "Sub", "Mul":
			nonNil(0)
			nonNil(1)
			nonNil(2)
			op := map[string]string{"Add": "+", "Sub": "-", "Mul": "*"}[m]
			v := c.define("big."+m, app(SInt, op, bv(1), bv(2)))
			setBig(T(0), v)
			return done(args[0])
		case "Quo", "Rem", "Div", "Mod":
			nonNil(0)
			nonNil(1)
			nonNil(2)
			cur = fr.mayPanicIf(cur, tEq(bv(2), intLit(0)), st, "bigdivzero", pos, "division by zero in big.Int."+m)
			var v *Term
			switch m {
			case "Quo":
				v = tQuoT(bv(1), bv(2))
			case "Rem":
				v = tRemT(bv(1), bv(2))
			case "Div":
				v = tDivE(bv(1), bv(2))
			case "Mod":
				v = tModE(bv(1), bv(2))
			}
			v = c.defineAlways("big."+m, v)
			setBig(T(0), v)
			return done(args[0])
		case "Neg":
			nonNil(0)
			nonNil(1)
			setBig(T(0), app(SInt, "-", bv(1)))
			return done(args[0])
		case "Abs":
			nonNil(0)
			nonNil(1)
			setBig(T(0), app(SInt, "absI", bv(1)))
			return done(args[0])
		case "Set":
			nonNil(0)
			nonNil(1)
			setBig(T(0), bv(1))
			return done(args[0])
		case "SetInt64", "SetUint64":
			nonNil(0)
			setBig(T(0), T(1))
			return done(args[0])
		case "Sqrt":
			nonNil(0)
			nonNil(1)
			cur = fr.mayPanicIf(cur, tLt(bv(1), intLit(0)), st, "bigsqrtneg", pos, "square root of negative number")
			r := c.fresh("isqrt", SInt)
			x := bv(1)
			c.assumeG(cur, mk(SBool, fmt.Sprintf("(and (>= %s 0) (<= (* %s %s) %s) (< %s (* (+ %s 1) (+ %s 1))) (= %s (isqrt %s)))", r.S, r.S, r.S, x.S, x.S, r.S, r.S, r.S, x.S)))
			setBig(T(0), r)
			return done(args[0])
		case "Cmp":
			nonNil(0)
			nonNil(1)
			return done(tv(c.define("cmp", app(SInt, "sgnI", tSub(bv(0), bv(1))))))
		case "CmpAbs":
			nonNil(0)
			nonNil(1)
			return done(tv(c.define("cmpabs", app(SInt, "sgnI", tSub(app(SInt, "absI", bv(0)), app(SInt, "absI", bv(1)))))))
		case "Sign":
			nonNil(0)
			return done(tv(app(SInt, "sgnI", bv(0))))
		case "Int64":
			nonNil(0)
			return done(tv(wrapInt(types.Typ[types.Int64], bv(0))))
		case "Uint64":
			nonNil(0)
			// low 64 bits of |x| (what math/big returns also for values that do not fit)
			return done(tv(wrapInt(types.Typ[types.Uint64], app(SInt, "absI", bv(0)))))
		case "IsInt64":
			nonNil(0)
			lo, hi, _ := intRange(types.Typ[types.Int64])
			return done(tv(mk(SBool, fmt.Sprintf("(and (<= %s %s) (<= %s %s))", lo, bv(0).S, bv(0).S, hi))))
		case "IsUint64":
			nonNil(0)
			lo, hi, _ := intRange(types.Typ[types.Uint64])
			return done(tv(mk(SBool, fmt.Sprintf("(and (<= %s %s) (<= %s %s))", lo, bv(0).S, bv(0).S, hi))))
		case "String":
			c.declareFun("big.str", []Sort{SInt}, SStr)
			// nil receiver prints "<nil>"
			return done(tv(app(SStr, "big.str", tIte(tEq(T(0), intLit(0)), intLit(-7777777), bv(0)))))
		case "Text":
			c.declareFun("big.text", []Sort{SInt, SInt}, SStr)
			return done(tv(app(SStr, "big.text", bv(0), T(1))))
		case "Bytes":
			nonNil(0)
			// big-endian bytes of |x| as a fresh slice; contents abstract (function of the value)
			c.declareFun("big.bytes", []Sort{SInt}, ArrSort(SInt, SInt))
			c.declareFun("big.byteslen", []Sort{SInt}, SInt)
			r := c.allocRef(st, g, "bigbytes")
			en := c.elemName(SInt)
			a := app(SInt, "absI", bv(0))
			c.heapSet(st, en, c.sto(c.heapGet(st, en), r, app(ArrSort(SInt, SInt), "big.bytes", a)))
			ln := app(SInt, "big.byteslen", a)
			c.assumeG(g, mk(SBool, fmt.Sprintf("(and (>= %s 0) (= (= %s 0) (= %s 0)) (= (<= %s 32) (< %s %s)) (= (<= %s 8) (< %s %s)))", ln.S, ln.S, a.S, ln.S, a.S, pow2(256).String(), ln.S, a.S, pow2(64).String())))
			res := mk(SSlice, fmt.Sprintf("(mk-slice %s 0 %s)", r.S, ln.S))
			// content-level codec facts (A-CODEC): bytes(x) is big.enc(|x|), decodable by big.dec
			c.declareFun("big.enc", []Sort{SInt}, SStr)
			c.declareFun("big.dec", []Sort{SStr}, SInt)
			c.assumeG(g, mk(SBool, fmt.Sprintf("(and (= %s (big.enc %s)) (= (gstr.len (big.enc %s)) %s) (= (big.dec (big.enc %s)) %s))", c.bytesContent(st, res).S, a.S, a.S, ln.S, a.S, a.S)))
			return done(tv(res))
		case "SetBytes":
			nonNil(0)
			c.declareFun("bytes.big", []Sort{ArrSort(SInt, SInt), SInt, SInt}, SInt)
			s := T(1)
			en := c.elemName(SInt)
			arr := tSelect(c.heapGet(st, en), mk(SInt, "(s.arr "+s.S+")"))
			_ = arr
			c.declareFun("big.dec", []Sort{SStr}, SInt)
			v := c.define("setbytes", app(SInt, "big.dec", c.bytesContent(st, s)))
			c.assumeG(g, tGe(v, intLit(0)))
			// round trip with Bytes: bytes.big(big.bytes(a), 0, big.byteslen(a)) == a   (A-CODEC, instantiated lazily in specs)
			setBig(T(0), v)
			return done(args[0])
		case "SetString":
			nonNil(0)
			c.declareFun("gstr.big", []Sort{SStr, SInt}, SInt)
			c.declareFun("gstr.bigok", []Sort{SStr, SInt}, SBool)
			ok := app(SBool, "gstr.bigok", T(1), T(2))
			v := app(SInt, "gstr.big", T(1), T(2))
			setBig(T(0), tIte(ok, v, bv(0)))
			return done(Val{Tuple: []Val{tv(tIte(ok, T(0), intLit(0))), tv(ok)}})
		case "BitLen":
			nonNil(0)
			c.declareFun("big.bitlen", []Sort{SInt}, SInt)
			av := app(SInt, "absI", bv(0))
			r := app(SInt, "big.bitlen", av)
			c.assumeG(g, tGe(r, intLit(0)))
			// exact thresholds that occur in practice: bitlen <= k  <=>  |x| < 2^k
			for _, k := range []int{0, 8, 32, 64, 256} {
				c.assumeG(g, mk(SBool, fmt.Sprintf("(= (<= %s %d) (< %s %s))", r.S, k, av.S, pow2(k).String())))
			}
			return done(tv(r))
		case "Exp":
			nonNil(0)
			nonNil(1)
			nonNil(2)
			c.declareFun("big.exp", []Sort{SInt, SInt, SInt}, SInt)
			// ground instances that occur in the code base (no modulus): 10^18 (pip per bip), 10^n for small n
			for _, k := range []int64{0, 1, 2, 3, 6, 9, 18} {
				c.assume(mk(SBool, fmt.Sprintf("(= (big.exp 10 %d 0) %s)", k, new(big.Int).Exp(big.NewInt(10), big.NewInt(k), nil).String())))
			}
			mval := tIte(tEq(T(3), intLit(0)), intLit(0), tSelect(bigval(), T(3)))
			setBig(T(0), app(SInt, "big.exp", bv(1), bv(2), mval))
			return done(args[0])
		case "Lsh":
			nonNil(0)
			nonNil(1)
			c.declareFun("pow2", []Sort{SInt}, SInt)
			setBig(T(0), tMul(bv(1), app(SInt, "pow2", T(2))))
			return done(args[0])
		case "Rsh":
			nonNil(0)
			nonNil(1)
			c.declareFun("pow2", []Sort{SInt}, SInt)
			setBig(T(0), tDivE(bv(1), app(SInt, "pow2", T(2))))
			return done(args[0])
		}
	case full == "math/big.NewInt":
		return done(tv(newBig(T(0), "NewInt")))
	case strings.HasPrefix(full, "(*math/big.Float).") || strings.HasPrefix(full, "(*math/big.Rat)."):
		isRat := strings.HasPrefix(full, "(*math/big.Rat).")
		m := full[strings.LastIndex(full, ".")+1:]
		c.usesReal = true
		switch m {
		case "Add", "Sub", "Mul", "Quo":
			nonNil(0)
			nonNil(1)
			nonNil(2)
			op := map[string]string{"Add": "+", "Sub": "-", "Mul": "*", "Quo": "/"}[m]
			if m == "Quo" {
				cur = fr.mayPanicIf(cur, tEq(rv(2), mk(SReal, "0.0")), st, "bigdivzero", pos, "division by zero in "+full)
			}
			v := c.define("bigf."+m, app(SReal, op, rv(1), rv(2)))
			setReal(T(0), v)
			return done(args[0])
		case "Neg":
			nonNil(0)
			nonNil(1)
			setReal(T(0), app(SReal, "-", rv(1)))
			return done(args[0])
		case "Abs":
			nonNil(0)
			nonNil(1)
			setReal(T(0), tIte(app(SBool, ">=", rv(1), mk(SReal, "0.0")), rv(1), app(SReal, "-", rv(1))))
			return done(args[0])
		case "Set":
			nonNil(0)
			nonNil(1)
			setReal(T(0), rv(1))
			return done(args[0])
		case "SetInt":
			nonNil(0)
			nonNil(1)
			setReal(T(0), app(SReal, "to_real", bv(1)))
			return done(args[0])
		case "SetRat":
			nonNil(0)
			nonNil(1)
			setReal(T(0), rv(1))
			return done(args[0])
		case "SetInt64", "SetUint64":
			nonNil(0)
			setReal(T(0), app(SReal, "to_real", T(1)))
			return done(args[0])
		case "SetFloat64":
			nonNil(0)
			setReal(T(0), T(1))
			return done(args[0])
		case "SetPrec", "SetMode":
			nonNil(0)
			return done(args[0])
		case "SetFrac":
			nonNil(0)
			nonNil(1)
			nonNil(2)
			cur = fr.mayPanicIf(cur, tEq(bv(2), intLit(0)), st, "bigdivzero", pos, "division by zero in Rat.SetFrac")
			setReal(T(0), app(SReal, "/", app(SReal, "to_real", bv(1)), app(SReal, "to_real", bv(2))))
			return done(args[0])
		case "Cmp":
			nonNil(0)
			nonNil(1)
			return done(tv(c.define("cmpf", app(SInt, "sgnR", app(SReal, "-", rv(0), rv(1))))))
		case "Sign":
			nonNil(0)
			return done(tv(app(SInt, "sgnR", rv(0))))
		case "Int":
			if isRat {
				break
			}
			nonNil(0)
			// (*Float).Int(z) : truncation toward zero; z may be nil (then a new Int is allocated)
			v := c.define("f.int", app(SInt, "truncR", rv(0)))
			var ref *Term
			if args[1].T != nil && args[1].T.S == "0" {
				ref = newBig(v, "Float.Int")
			} else {
				fresh := c.allocRef(st, g, "Float.Int")
				ref = c.define("f.int.ref", tIte(tEq(T(1), intLit(0)), fresh, T(1)))
				setBig(ref, v)
			}
			acc := c.fresh("accuracy", SInt)
			return done(Val{Tuple: []Val{tv(ref), tv(acc)}})
		case "Num", "Denom":
			if !isRat {
				break
			}
			nonNil(0)
			// num/denom of the reduced fraction: denom >= 1, num == val*denom ; both functions of the value
			c.declareFun("rat.num", []Sort{SReal}, SInt)
			c.declareFun("rat.den", []Sort{SReal}, SInt)
			x := rv(0)
			nu, de := app(SInt, "rat.num", x), app(SInt, "rat.den", x)
			c.assumeG(g, mk(SBool, fmt.Sprintf("(and (>= %s 1) (= (to_real %s) (* %s (to_real %s))) (= (div %s %s) (to_int %s)))", de.S, nu.S, x.S, de.S, nu.S, de.S, x.S)))
			if m == "Num" {
				return done(tv(newBig(nu, "Rat.Num")))
			}
			return done(tv(newBig(de, "Rat.Denom")))
		case "IsInt":
			nonNil(0)
			return done(tv(mk(SBool, fmt.Sprintf("(is_int %s)", rv(0).S))))
		case "Float64":
			nonNil(0)
			if isRat {
				return done(Val{Tuple: []Val{tv(rv(0)), tv(c.fresh("exact", SBool))}})
			}
			return done(Val{Tuple: []Val{tv(rv(0)), tv(c.fresh("accuracy", SInt))}})
		case "String", "Text", "FloatString":
			c.declareFun("real.str", []Sort{SReal}, SStr)
			return done(tv(app(SStr, "real.str", rv(0))))
		}
	case full == "math/big.NewFloat":
		c.usesReal = true
		return done(tv(newReal(T(0), "NewFloat")))
	case full == "math/big.NewRat":
		c.usesReal = true
		cur = fr.mayPanicIf(cur, tEq(T(1), intLit(0)), st, "bigdivzero", pos, "division by zero in NewRat")
		return done(tv(newReal(app(SReal, "/", app(SReal, "to_real", T(0)), app(SReal, "to_real", T(1))), "NewRat")))
	case strings.HasPrefix(full, "(*sync.Mutex).") || strings.HasPrefix(full, "(*sync.RWMutex).") || strings.HasPrefix(full, "(*sync.WaitGroup)."):
		// blocking is not modelled; only the ghost lock-set (not yet tracked)
		m := full[strings.LastIndex(full, ".")+1:]
		if m == "TryLock" || m == "TryRLock" {
			return done(tv(c.fresh("trylock", SBool)))
		}
		if !strings.HasPrefix(full, "(*sync.WaitGroup).") && len(args) > 0 {
			fr.lockOp(m, args[0], st, cur, site)
		}
		return done(Val{})
	case strings.HasPrefix(full, "(*sync.Map)."):
		// the mempool map is not part of the modelled state: no heap effect, unconstrained results
		return done(c.freshVal(st, g, resType, "syncmap"))
	case strings.HasPrefix(full, "sync/atomic.Load"):
		loc := c.derefLoc(args[0], fn.Signature.Params().At(0).Type())
		v := c.define("atomic.load", c.load(st, loc))
		c.assumeG(g, c.typeConstraint(loc.Elem, v))
		return done(tv(v))
	case strings.HasPrefix(full, "sync/atomic.Store"):
		loc := c.derefLoc(args[0], fn.Signature.Params().At(0).Type())
		c.store(st, loc, T(1))
		return done(Val{})
	case strings.HasPrefix(full, "sync/atomic.Add"):
		loc := c.derefLoc(args[0], fn.Signature.Params().At(0).Type())
		v := wrapInt(loc.Elem, tAdd(c.load(st, loc), T(1)))
		v = c.define("atomic.add", v)
		c.store(st, loc, v)
		return done(tv(v))
	case full == "fmt.Sprintf" || full == "fmt.Sprint" || full == "fmt.Errorf" || full == "errors.New" || full == "fmt.Sprintln":
		// pure; result is an opaque non-nil value
		r := c.freshVal(st, g, resType, "fmt")
		if _, isIface := resType.Underlying().(*types.Interface); isIface {
			c.assumeG(g, tNot(tEq(r.T, intLit(0))))
		}
		return done(r)
	case full == "fmt.Println" || full == "fmt.Printf" || full == "fmt.Print" || strings.HasPrefix(full, "log."):
		if strings.Contains(full, "Panic") || strings.Contains(full, "Fatal") {
			fr.panicSite(g, st, "explicit", pos, full)
			return Val{}, tFalse, true
		}
		return done(c.freshVal(st, g, resType, "print"))
	case full == "os.Exit":
		fr.panicSite(g, st, "exit", pos, "os.Exit")
		return Val{}, tFalse, true
	case full == "encoding/binary.bigEndian.Uint64" || full == "(encoding/binary.bigEndian).Uint64":
		c.declareFun("be.u64", []Sort{ArrSort(SInt, SInt), SInt}, SInt)
		s := T(1)
		cur = fr.mayPanicIf(cur, mk(SBool, fmt.Sprintf("(< (s.len %s) 8)", s.S)), st, "index", pos, "BigEndian.Uint64: short slice")
		en := c.elemName(SInt)
		arr := tSelect(c.heapGet(st, en), mk(SInt, "(s.arr "+s.S+")"))
		_ = arr
		c.declareFun("be64.dec", []Sort{SStr}, SInt)
		first8 := mk(SSlice, fmt.Sprintf("(mk-slice (s.arr %s) (s.off %s) 8)", s.S, s.S))
		v := c.define("be.u64", app(SInt, "be64.dec", c.bytesContent(st, first8)))
		c.assumeG(g, c.typeConstraint(types.Typ[types.Uint64], v))
		return done(tv(v))
	case full == "encoding/binary.bigEndian.Uint32" || full == "(encoding/binary.bigEndian).Uint32" ||
		full == "encoding/binary.bigEndian.Uint16" || full == "(encoding/binary.bigEndian).Uint16":
		w, nb, ty := "32", 4, types.Typ[types.Uint32]
		if strings.HasSuffix(full, "Uint16") {
			w, nb, ty = "16", 2, types.Typ[types.Uint16]
		}
		c.declareBE(w)
		s := T(1)
		cur = fr.mayPanicIf(cur, mk(SBool, fmt.Sprintf("(< (s.len %s) %d)", s.S, nb)), st, "index", pos, "BigEndian.Uint"+w+": short slice")
		firstN := mk(SSlice, fmt.Sprintf("(mk-slice (s.arr %s) (s.off %s) %d)", s.S, s.S, nb))
		v := c.define("be.u"+w, app(SInt, "be"+w+".dec", c.bytesContent(st, firstN)))
		c.assumeG(g, c.typeConstraint(ty, v))
		return done(tv(v))
	case full == "encoding/binary.bigEndian.PutUint64" || full == "(encoding/binary.bigEndian).PutUint64":
		c.declareFun("be.put64", []Sort{ArrSort(SInt, SInt), SInt, SInt}, ArrSort(SInt, SInt))
		c.declareFun("be.u64", []Sort{ArrSort(SInt, SInt), SInt}, SInt)
		s := T(1)
		cur = fr.mayPanicIf(cur, mk(SBool, fmt.Sprintf("(< (s.len %s) 8)", s.S)), st, "index", pos, "BigEndian.PutUint64: short slice")
		en := c.elemName(SInt)
		arrRef := mk(SInt, "(s.arr "+s.S+")")
		arr := tSelect(c.heapGet(st, en), arrRef)
		na := c.define("be.put64", app(ArrSort(SInt, SInt), "be.put64", arr, mk(SInt, "(s.off "+s.S+")"), T(2)))
		// decode(encode) = id at this offset (A-CODEC instance)
		c.assumeG(g, mk(SBool, fmt.Sprintf("(= (be.u64 %s (s.off %s)) %s)", na.S, s.S, T(2).S)))
		c.heapSet(st, en, tStore(c.heapGet(st, en), arrRef, na))
		// content-level codec facts (A-CODEC)
		c.declareFun("be64.enc", []Sort{SInt}, SStr)
		c.declareFun("be64.dec", []Sort{SStr}, SInt)
		first8 := mk(SSlice, fmt.Sprintf("(mk-slice (s.arr %s) (s.off %s) 8)", s.S, s.S))
		c.assumeG(g, mk(SBool, fmt.Sprintf("(and (= %s (be64.enc %s)) (= (gstr.len (be64.enc %s)) 8) (= (be64.dec (be64.enc %s)) %s))", c.bytesContent(st, first8).S, T(2).S, T(2).S, T(2).S, T(2).S)))
		return done(Val{})
	case full == "bytes.Equal":
		c.declareFun("bytes.eq", []Sort{ArrSort(SInt, SInt), SInt, SInt, ArrSort(SInt, SInt), SInt, SInt}, SBool)
		en := c.elemName(SInt)
		a, b := T(0), T(1)
		aa := tSelect(c.heapGet(st, en), mk(SInt, "(s.arr "+a.S+")"))
		ba := tSelect(c.heapGet(st, en), mk(SInt, "(s.arr "+b.S+")"))
		r := app(SBool, "bytes.eq", aa, mk(SInt, "(s.off "+a.S+")"), mk(SInt, "(s.len "+a.S+")"), ba, mk(SInt, "(s.off "+b.S+")"), mk(SInt, "(s.len "+b.S+")"))
		c.assumeG(g, mk(SBool, fmt.Sprintf("(=> %s (= (s.len %s) (s.len %s)))", r.S, a.S, b.S)))
		return done(tv(r))
	case full == "(time.Time).IsZero":
		ts := c.sortOf(fn.Signature.Recv().Type())
		c.declareFun("time.iszero", []Sort{ts}, SBool)
		return done(tv(app(SBool, "time.iszero", T(0))))
	case full == "time.Now":
		return done(c.freshVal(st, g, resType, "now"))
	case full == "math.Pow":
		c.usesReal = true
		c.declareFun("powR", []Sort{SReal, SReal}, SReal)
		return done(tv(app(SReal, "powR", T(0), T(1))))
	}
	if isPureLibFunc(fn) {
		// side-effect free standard-library function: unconstrained result, heap untouched (listed as trusted)
		c.trustedUsed["pure library function: "+full] = true
		r := c.freshVal(st, g, resType, "lib."+fn.Name())
		return done(r)
	}
	return Val{}, nil, false
}

// isPureLibFunc: dependency functions assumed not to modify program-visible memory (their results are left unconstrained).
func isPureLibFunc(fn *ssa.Function) bool {
	if fn.Pkg != nil && fn.Blocks != nil {
		return false // functions of the loaded module are never assumed pure
	}
	obj := fn.Object()
	if obj == nil || obj.Pkg() == nil {
		return false
	}
	path := obj.Pkg().Path()
	recv := fn.Signature.Recv()
	switch path {
	case "strings", "strconv", "unicode", "unicode/utf8", "math", "math/bits", "errors", "encoding/hex", "path", "path/filepath", "regexp/syntax":
		if recv == nil {
			return true
		}
		// value receivers only
		_, isPtr := recv.Type().Underlying().(*types.Pointer)
		return !isPtr
	case "time":
		if recv == nil {
			return true
		}
		_, isPtr := recv.Type().Underlying().(*types.Pointer)
		return !isPtr
	case "fmt":
		return strings.HasPrefix(fn.Name(), "Sprint") || fn.Name() == "Errorf"
	case "encoding/json", "github.com/tendermint/tendermint/libs/json":
		return fn.Name() == "Marshal" || fn.Name() == "MarshalIndent"
	case "bytes":
		switch fn.Name() {
		case "Equal", "Compare", "HasPrefix", "HasSuffix", "Contains", "Index", "IndexByte", "TrimLeft", "TrimRight", "TrimSpace", "Count", "Trim", "TrimPrefix", "TrimSuffix", "ToLower", "ToUpper", "Repeat", "Join", "EqualFold", "LastIndex", "LastIndexByte":
			return recv == nil
		}
	case "regexp":
		// (*Regexp).Match* do not modify the arguments
		return strings.HasPrefix(fn.Name(), "Match")
	}
	return false
}
