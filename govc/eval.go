package main

import (
	"fmt"
	"go/constant"
	"go/types"
	"golang.org/x/tools/go/ssa"
	"math/big"
	"sort"
	"strings"
)

// SVal is the value of a contract expression.
type SVal struct {
	T    *Term
	Type types.Type // Go type when known; nil for pure spec values
	Val  *Val       // original SSA-level value when the expression is a plain variable
}

type Env struct {
	c    *Ctx
	vars map[string]SVal
	cur  *State
	old  *State
	pkg  *types.Package
	lets map[string]Expr
	fr   *Frame
	g    *Term
	// implicit heap parameters while translating a spec function body
	inSpec      *specTranslation
	hdrBlock    interface{}
	phiOverride map[*ssa.Phi]Val
	inQuant     bool // under a quantifier: no side assumptions may be emitted (they would mention bound variables)
	// skolems: ghost constants (declared "skolem" in a contract) that evaluate to the given bound variable: used when a
	// clause the callee proved for the arbitrary constant is assumed, at a call site, for all its values
	skolems map[string]*Term
}

type specTranslation struct {
	heapParams map[string]*Term
}

func (e *Env) child() *Env {
	n := *e
	n.vars = map[string]SVal{}
	for k, v := range e.vars {
		n.vars[k] = v
	}
	return &n
}

func (e *Env) errf(format string, a ...interface{}) SVal {
	panic(specError{fmt.Sprintf(format, a...)})
}

type specError struct{ msg string }

func (e *Env) heap(st *State, name string) *Term {
	if e.inSpec != nil {
		if t, ok := e.inSpec.heapParams[name]; ok {
			return t
		}
		t := mk(e.c.heapSorts[name], "h!"+sanitize(name))
		e.inSpec.heapParams[name] = t
		return t
	}
	return e.c.heapGet(st, name)
}

func (e *Env) specSort(ty string) (Sort, types.Type) {
	switch ty {
	case "int":
		return SInt, nil
	case "bool":
		return SBool, nil
	case "real":
		e.c.usesReal = true
		return SReal, nil
	case "string":
		return SStr, types.Typ[types.String]
	}
	t := e.lookupType(ty)
	if t == nil {
		e.errf("unknown type %q", ty)
	}
	return e.c.sortOf(t), t
}

func (e *Env) lookupType(name string) types.Type {
	name = strings.TrimSpace(name)
	if name == "interface{}" || name == "any" {
		return types.NewInterfaceType(nil, nil)
	}
	if strings.HasPrefix(name, "[]") {
		el := e.lookupType(name[2:])
		if el == nil {
			return nil
		}
		return types.NewSlice(el)
	}
	if strings.HasPrefix(name, "map[") {
		// map[K]V with K free of brackets
		if i := strings.Index(name, "]"); i > 0 {
			k, v := e.lookupType(name[4:i]), e.lookupType(name[i+1:])
			if k == nil || v == nil {
				return nil
			}
			return types.NewMap(k, v)
		}
		return nil
	}
	ptr := 0
	for strings.HasPrefix(name, "*") {
		ptr++
		name = name[1:]
	}
	var t types.Type
	if i := strings.Index(name, "."); i > 0 {
		pk := e.importedPkg(name[:i])
		if pk == nil {
			return nil
		}
		obj := pk.Scope().Lookup(name[i+1:])
		if tn, ok := obj.(*types.TypeName); ok {
			t = tn.Type()
		}
	} else if e.pkg != nil {
		if obj := e.pkg.Scope().Lookup(name); obj != nil {
			if tn, ok := obj.(*types.TypeName); ok {
				t = tn.Type()
			}
		}
		if t == nil {
			if obj := types.Universe.Lookup(name); obj != nil {
				if tn, ok := obj.(*types.TypeName); ok {
					t = tn.Type()
				}
			}
		}
	}
	if t == nil {
		return nil
	}
	for ; ptr > 0; ptr-- {
		t = types.NewPointer(t)
	}
	return t
}

func (e *Env) importedPkg(name string) *types.Package {
	if e.pkg == nil {
		return nil
	}
	if e.pkg.Name() == name {
		return e.pkg
	}
	// import aliases as written in the package's source files
	if path, ok := e.c.prog.importAlias(e.pkg.Path(), name); ok {
		if tp := e.c.prog.typesPkg(path); tp != nil {
			return tp
		}
		for _, imp := range e.pkg.Imports() {
			if imp.Path() == path {
				return imp
			}
		}
	}
	// packages of this module take precedence over same-named dependencies (e.g. "types")
	for _, imp := range e.pkg.Imports() {
		if imp.Name() == name && strings.HasPrefix(imp.Path(), modulePath) {
			return imp
		}
	}
	for _, imp := range e.pkg.Imports() {
		if imp.Name() == name {
			return imp
		}
	}
	for _, p := range e.c.prog.SSA.AllPackages() {
		if p.Pkg.Name() == name && strings.HasPrefix(p.Pkg.Path(), modulePath) {
			return p.Pkg
		}
	}
	// fall back: any loaded package with that name
	for _, p := range e.c.prog.SSA.AllPackages() {
		if p.Pkg.Name() == name {
			return p.Pkg
		}
	}
	return nil
}

func (e *Env) evalBool(x Expr) *Term {
	v := e.eval(x)
	if v.T.Sort != SBool {
		e.errf("expected boolean expression, got sort %s", v.T.Sort)
	}
	return v.T
}

func constTerm(c *Ctx, k *types.Const) (SVal, bool) {
	v := k.Val()
	switch v.Kind() {
	case constant.Int:
		n, _ := new(big.Int).SetString(v.ExactString(), 10)
		return SVal{T: bigLit(n), Type: k.Type()}, true
	case constant.Bool:
		if constant.BoolVal(v) {
			return SVal{T: tTrue}, true
		}
		return SVal{T: tFalse}, true
	case constant.String:
		return SVal{T: c.strLit(constant.StringVal(v)), Type: k.Type()}, true
	case constant.Float:
		if iv := constant.ToInt(v); iv.Kind() == constant.Int {
			n, _ := new(big.Int).SetString(iv.ExactString(), 10)
			return SVal{T: bigLit(n), Type: k.Type()}, true
		}
		c.usesReal = true
		f, _ := constant.Float64Val(v)
		return SVal{T: realLitRat(new(big.Rat).SetFloat64(f)), Type: k.Type()}, true
	}
	return SVal{}, false
}

func (e *Env) lookupPkgObj(pk *types.Package, name string, st *State) (SVal, bool) {
	obj := pk.Scope().Lookup(name)
	switch o := obj.(type) {
	case *types.Const:
		return constTerm(e.c, o)
	case *types.Var:
		hn := e.c.heapName("glob!"+sanitize(pk.Path()+"."+o.Name()), e.c.sortOf(o.Type()))
		if sp := e.c.prog.SSAPkgs[pk.Path()]; sp != nil && e.inSpec == nil {
			if g := sp.Var(o.Name()); g != nil {
				e.c.globalLoc(g)
				e.c.assumeGlobalFacts(st, hn)
			}
		}
		return SVal{T: e.heap(st, hn), Type: o.Type()}, true
	}
	return SVal{}, false
}

func (e *Env) eval(x Expr) SVal {
	c := e.c
	switch n := x.(type) {
	case *EInt:
		return SVal{T: mk(SInt, n.V)}
	case *EBool:
		if n.V {
			return SVal{T: tTrue}
		}
		return SVal{T: tFalse}
	case *ENil:
		return SVal{T: intLit(0)}
	case *EStr:
		return SVal{T: c.strLit(n.V), Type: types.Typ[types.String]}
	case *EIdent:
		if v, ok := e.vars[n.Name]; ok {
			return v
		}
		if le, ok := e.lets[n.Name]; ok {
			return e.eval(le)
		}
		if e.fr != nil {
			if v, ok := e.fr.lookupName(n.Name, e); ok {
				return v
			}
		}
		if g, ok := c.prog.Ghosts[n.Name]; ok {
			// a ghost function named without arguments denotes the whole map (for "nothing changed" clauses)
			return SVal{T: e.heap(e.cur, c.ghostName(g, e))}
		}
		if e.pkg != nil {
			if v, ok := e.lookupPkgObj(e.pkg, n.Name, e.cur); ok {
				return v
			}
		}
		return e.errf("unknown identifier %q", n.Name)
	case *EOld:
		if e.old == nil {
			return e.errf("old() not allowed here")
		}
		ne := *e
		ne.cur = e.old
		return ne.eval(n.X)
	case *EUn:
		v := e.eval(n.X)
		switch n.Op {
		case "!":
			return SVal{T: tNot(v.T)}
		case "-":
			if v.T.Sort == SReal {
				return SVal{T: app(SReal, "-", v.T)}
			}
			return SVal{T: app(SInt, "-", v.T)}
		}
	case *EBin:
		return e.evalBin(n)
	case *ECond:
		cnd := e.evalBool(n.C)
		a, b := e.eval(n.A), e.eval(n.B)
		a, b = e.unify(a, b)
		return SVal{T: tIte(cnd, a.T, b.T), Type: a.Type}
	case *ESel:
		return e.evalSel(n)
	case *EIdx:
		return e.evalIdx(n)
	case *ECall:
		return e.evalCall(n)
	case *EQuant:
		ne := e.child()
		ne.inQuant = true
		var binds []string
		for _, qv := range n.Vars {
			s, ty := e.specSort(qv.Type)
			name := "q!" + sanitize(qv.Name)
			if strings.HasPrefix(string(s), "(Array ") {
				// array-valued variable (an address, a public key): bind a variable of the key sort and use its unwrapping,
				// so that indexing by it (where it is wrapped again) instantiates by plain E-matching on the key
				e.c.wrapKey(mk(s, name)) // declares key!/unkey!
				ks := e.c.keySort(s)
				ne.vars[qv.Name] = SVal{T: app(s, "unkey!"+sanitize(string(s)), mk(ks, name)), Type: ty}
				binds = append(binds, fmt.Sprintf("(%s %s)", name, ks))
				continue
			}
			ne.vars[qv.Name] = SVal{T: mk(s, name), Type: ty}
			binds = append(binds, fmt.Sprintf("(%s %s)", name, s))
		}
		body := ne.evalBool(n.Body)
		q := "forall"
		if !n.Forall {
			q = "exists"
		}
		plain := fmt.Sprintf("(%s (%s) %s)", q, strings.Join(binds, " "), body.S)
		if n.Forall && len(n.Vars) == 1 && !strings.Contains(body.S, ":pattern") {
			// a statement about every element s[i] of some slices: besides the plain quantifier (left to the solver's own
			// instantiation heuristics) state it once more with the element addresses as explicit triggers, so that
			// knowing about a concrete element s[k] reliably instantiates it (z3 otherwise sometimes picks a
			// trigger that never matches in large queries)
			name := "q!" + sanitize(n.Vars[0].Name)
			var pats []string
			seen := map[string]bool{}
			for _, args := range findApps(body.S, "sidx") {
				if len(args) == 2 && args[1] == name && !strings.Contains(args[0], "q!") && !seen[args[0]] {
					seen[args[0]] = true
					pats = append(pats, fmt.Sprintf(":pattern ((sidx %s %s))", args[0], name))
				}
			}
			if len(pats) > 0 && len(pats) <= 4 {
				trig := fmt.Sprintf("(forall (%s) (! %s %s))", strings.Join(binds, " "), body.S, strings.Join(pats, " "))
				return SVal{T: mk(SBool, "(and "+plain+" "+trig+")")}
			}
		}
		return SVal{T: mk(SBool, plain)}
	}
	return e.errf("cannot evaluate %T", x)
}

// unify coerces Int/Real mixes to Real.
func (e *Env) unify(a, b SVal) (SVal, SVal) {
	if a.T.Sort == SReal && b.T.Sort == SInt {
		b = SVal{T: app(SReal, "to_real", b.T)}
	} else if a.T.Sort == SInt && b.T.Sort == SReal {
		a = SVal{T: app(SReal, "to_real", a.T)}
	}
	return a, b
}

func (e *Env) evalBin(n *EBin) SVal {
	switch n.Op {
	case "==>":
		return SVal{T: tImp(e.evalBool(n.L), e.evalBool(n.R))}
	case "<==>":
		return SVal{T: tEq(e.evalBool(n.L), e.evalBool(n.R))}
	case "&&":
		return SVal{T: tAnd(e.evalBool(n.L), e.evalBool(n.R))}
	case "||":
		return SVal{T: tOr(e.evalBool(n.L), e.evalBool(n.R))}
	case "in":
		k := e.eval(n.L)
		m := e.eval(n.R)
		if m.Type == nil {
			// ghost set (Array K Bool)
			return SVal{T: tSelect(m.T, k.T)}
		}
		mt, ok := m.Type.Underlying().(*types.Map)
		if !ok {
			return e.errf("'in' needs a map")
		}
		dn, _, _ := e.c.mapNames(mt)
		return SVal{T: tAnd(tNot(tEq(m.T, intLit(0))), tSelect(tSelect(e.heap(e.cur, dn), m.T), e.c.mapKey(mt, k.T)))}
	}
	a, b := e.eval(n.L), e.eval(n.R)
	a, b = e.unify(a, b)
	// comparison of a slice with nil
	if _, isNil := n.R.(*ENil); isNil && a.T.Sort == SSlice {
		a, b = SVal{T: mk(SInt, "(s.arr "+a.T.S+")")}, SVal{T: intLit(0)}
	} else if _, isNil := n.L.(*ENil); isNil && b.T.Sort == SSlice {
		a, b = SVal{T: intLit(0)}, SVal{T: mk(SInt, "(s.arr "+b.T.S+")")}
	}
	real := a.T.Sort == SReal
	switch n.Op {
	case "==":
		return SVal{T: tEq(a.T, b.T)}
	case "!=":
		return SVal{T: tNot(tEq(a.T, b.T))}
	case "<", "<=", ">", ">=":
		return SVal{T: app(SBool, n.Op, a.T, b.T)}
	case "+", "-", "*":
		if n.Op == "+" && a.T.Sort == SStr && b.T.Sort == SStr {
			// string concatenation (uninterpreted, as in the executable code)
			e.c.declareFun("gstr.cat", []Sort{SStr, SStr}, SStr)
			return SVal{T: app(SStr, "gstr.cat", a.T, b.T), Type: types.Typ[types.String]}
		}
		if real {
			return SVal{T: app(SReal, n.Op, a.T, b.T)}
		}
		return SVal{T: app(SInt, n.Op, a.T, b.T)}
	case "/":
		if real {
			return SVal{T: app(SReal, "/", a.T, b.T)}
		}
		return SVal{T: tQuoT(a.T, b.T)}
	case "%":
		return SVal{T: tRemT(a.T, b.T)}
	}
	return e.errf("bad operator %s", n.Op)
}

// fieldPath finds a (possibly promoted) field.
func fieldPath(t types.Type, name string) ([]int, types.Type, bool) {
	obj, idx, _ := types.LookupFieldOrMethod(t, true, nil, name)
	if obj == nil {
		// unexported fields of other packages: search manually
		return manualFieldPath(t, name, 0)
	}
	if v, ok := obj.(*types.Var); ok && v.IsField() {
		return idx, v.Type(), true
	}
	return nil, nil, false
}

func manualFieldPath(t types.Type, name string, depth int) ([]int, types.Type, bool) {
	if depth > 4 {
		return nil, nil, false
	}
	if p, ok := t.Underlying().(*types.Pointer); ok {
		t = p.Elem()
	}
	u, ok := t.Underlying().(*types.Struct)
	if !ok {
		return nil, nil, false
	}
	for i := 0; i < u.NumFields(); i++ {
		if u.Field(i).Name() == name {
			return []int{i}, u.Field(i).Type(), true
		}
	}
	for i := 0; i < u.NumFields(); i++ {
		if u.Field(i).Embedded() {
			if p, ft, ok := manualFieldPath(u.Field(i).Type(), name, depth+1); ok {
				return append([]int{i}, p...), ft, true
			}
		}
	}
	return nil, nil, false
}

func (e *Env) evalSel(n *ESel) SVal {
	c := e.c
	// package-qualified identifier
	if id, ok := n.X.(*EIdent); ok {
		if _, isVar := e.vars[id.Name]; !isVar {
			if _, isLet := e.lets[id.Name]; !isLet {
				if e.fr == nil || !e.fr.hasName(id.Name) {
					if pk := e.importedPkg(id.Name); pk != nil {
						if v, ok := e.lookupPkgObj(pk, n.Name, e.cur); ok {
							return v
						}
					}
				}
			}
		}
	}
	x := e.eval(n.X)
	if x.Type == nil {
		return e.errf("selector .%s on untyped value", n.Name)
	}
	switch n.Name {
	case "val":
		if isPtrTo(x.Type, isBigInt) {
			return SVal{T: c.sel(e.heap(e.cur, c.bigvalName()), x.T)}
		}
	case "real":
		if isPtrTo(x.Type, isBigFloat) {
			return SVal{T: c.sel(e.heap(e.cur, c.realvalName()), x.T)}
		}
	}
	path, _, ok := fieldPath(x.Type, n.Name)
	if !ok {
		return e.errf("no field %s in %s", n.Name, x.Type)
	}
	cur := x
	for _, fi := range path {
		cur = e.selectField(cur, fi)
	}
	return cur
}

func (e *Env) selectField(x SVal, fi int) SVal {
	c := e.c
	t := x.Type
	if p, ok := t.Underlying().(*types.Pointer); ok {
		st := p.Elem()
		u := st.Underlying().(*types.Struct)
		fn := c.fieldArrayName(st, fi)
		res := c.sel(e.heap(e.cur, fn), x.T)
		if e.inSpec == nil && e.cur != nil && !e.inQuant {
			c.bornNow(res)
			c.assumeLoadedRef(e.cur, fn, u.Field(fi).Type(), res, x.T)
		}
		return SVal{T: res, Type: u.Field(fi).Type()}
	}
	u, ok := t.Underlying().(*types.Struct)
	if !ok {
		return e.errf("field selection on %s", t)
	}
	return SVal{T: c.structField(t, x.T, fi), Type: u.Field(fi).Type()}
}

func (e *Env) evalIdx(n *EIdx) SVal {
	c := e.c
	x := e.eval(n.X)
	i := e.eval(n.I)
	if x.Type == nil {
		// ghost array
		return SVal{T: tSelect(x.T, i.T)}
	}
	switch u := x.Type.Underlying().(type) {
	case *types.Slice:
		en := c.elemNameT(u.Elem())
		return SVal{T: tSelect(tSelect(e.heap(e.cur, en), mk(SInt, "(s.arr "+x.T.S+")")), mk(SInt, fmt.Sprintf("(sidx %s %s)", x.T.S, i.T.S))), Type: u.Elem()}
	case *types.Array:
		return SVal{T: tSelect(x.T, i.T), Type: u.Elem()}
	case *types.Map:
		_, vn, _ := c.mapNames(u)
		// Go semantics: a missing key (or nil map) reads as the zero value
		dn, _, _ := c.mapNames(u)
		k := c.mapKey(u, i.T)
		present := tAnd(tNot(tEq(x.T, intLit(0))), tSelect(tSelect(e.heap(e.cur, dn), x.T), k))
		return SVal{T: tIte(present, tSelect(tSelect(e.heap(e.cur, vn), x.T), k), c.zeroTerm(u.Elem())), Type: u.Elem()}
	case *types.Pointer:
		if a, ok := u.Elem().Underlying().(*types.Array); ok {
			cn := c.cellName(c.sortOf(u.Elem()))
			return SVal{T: tSelect(tSelect(e.heap(e.cur, cn), x.T), i.T), Type: a.Elem()}
		}
	}
	return e.errf("cannot index %s", x.Type)
}

func (c *Ctx) ghostName(g *GhostDecl, e0 *Env) string {
	// types in a ghost declaration are resolved in the declaring package
	e := &Env{c: c, vars: map[string]SVal{}, pkg: c.prog.typesPkg(g.Pkg), g: tTrue}
	if e.pkg == nil {
		e = e0
	}
	s, _ := e.specSort(g.Ret)
	for i := len(g.Keys) - 1; i >= 0; i-- {
		ks, _ := e.specSort(g.Keys[i].Type)
		s = ArrSort(c.keySort(ks), s)
	}
	return c.heapName("ghost!"+g.Name, s)
}

func (e *Env) evalCall(n *ECall) SVal {
	c := e.c
	arg := func(i int) SVal { return e.eval(n.Args[i]) }
	need := func(k int) {
		if len(n.Args) != k {
			e.errf("%s expects %d arguments", n.Fn, k)
		}
	}
	switch n.Fn {
	case "len":
		need(1)
		x := arg(0)
		if x.Type == nil {
			return e.errf("len of untyped value")
		}
		switch u := x.Type.Underlying().(type) {
		case *types.Slice:
			return SVal{T: mk(SInt, "(s.len "+x.T.S+")")}
		case *types.Map:
			_, _, cn := c.mapNames(u)
			return SVal{T: tSelect(e.heap(e.cur, cn), x.T)}
		case *types.Basic:
			return SVal{T: app(SInt, "gstr.len", x.T)}
		case *types.Array:
			return SVal{T: intLit(u.Len())}
		}
		return e.errf("len of %s", x.Type)
	case "div":
		need(2)
		return SVal{T: tDivE(arg(0).T, arg(1).T)}
	case "mod":
		need(2)
		return SVal{T: tModE(arg(0).T, arg(1).T)}
	case "quo":
		need(2)
		return SVal{T: tQuoT(arg(0).T, arg(1).T)}
	case "rem":
		need(2)
		return SVal{T: tRemT(arg(0).T, arg(1).T)}
	case "abs":
		need(1)
		return SVal{T: app(SInt, "absI", arg(0).T)}
	case "min":
		need(2)
		return SVal{T: app(SInt, "minI", arg(0).T, arg(1).T)}
	case "max":
		need(2)
		return SVal{T: app(SInt, "maxI", arg(0).T, arg(1).T)}
	case "sgn":
		need(1)
		a := arg(0)
		if a.T.Sort == SReal {
			return SVal{T: app(SInt, "sgnR", a.T)}
		}
		return SVal{T: app(SInt, "sgnI", a.T)}
	case "isqrt":
		need(1)
		return SVal{T: app(SInt, "isqrt", arg(0).T)}
	case "real":
		need(1)
		a := arg(0)
		c.usesReal = true
		if a.T.Sort == SReal {
			return a
		}
		return SVal{T: app(SReal, "to_real", a.T)}
	case "trunc":
		need(1)
		c.usesReal = true
		return SVal{T: app(SInt, "truncR", arg(0).T)}
	case "floor":
		need(1)
		c.usesReal = true
		return SVal{T: app(SInt, "to_int", arg(0).T)}
	case "pow":
		need(2)
		c.usesReal = true
		c.declareFun("powR", []Sort{SReal, SReal}, SReal)
		a, b := arg(0), arg(1)
		if a.T.Sort == SInt {
			a = SVal{T: app(SReal, "to_real", a.T)}
		}
		if b.T.Sort == SInt {
			b = SVal{T: app(SReal, "to_real", b.T)}
		}
		return SVal{T: app(SReal, "powR", a.T, b.T)}
	case "timeIsZero":
		need(1)
		a := arg(0)
		c.declareFun("time.iszero", []Sort{a.T.Sort}, SBool)
		return SVal{T: app(SBool, "time.iszero", a.T)}
	case "bytestr":
		// abstract content of a []byte value
		need(1)
		if a := arg(0); a.Type != nil {
			if at, ok := a.Type.Underlying().(*types.Array); ok {
				// a byte array value: its whole contents
				return SVal{T: c.bytesContentOf(a.T, intLit(0), intLit(at.Len())), Type: types.Typ[types.String]}
			}
		}
		return SVal{T: c.bytesContent(e.cur, arg(0).T), Type: types.Typ[types.String]}
	case "bytechar":
		// bytechar(b): the one-byte string holding byte b (content of []byte{b})
		need(1)
		c.declareFun("gbytes.str", []Sort{ArrSort(SInt, SInt), SInt, SInt}, SStr)
		return SVal{T: app(SStr, "gstr.fromByte", arg(0).T), Type: types.Typ[types.String]}
	case "bigenc":
		need(1)
		c.declareFun("big.enc", []Sort{SInt}, SStr)
		return SVal{T: app(SStr, "big.enc", arg(0).T), Type: types.Typ[types.String]}
	case "bigdec":
		need(1)
		c.declareFun("big.dec", []Sort{SStr}, SInt)
		return SVal{T: app(SInt, "big.dec", arg(0).T)}
	case "be64enc":
		need(1)
		c.declareFun("be64.enc", []Sort{SInt}, SStr)
		return SVal{T: app(SStr, "be64.enc", arg(0).T), Type: types.Typ[types.String]}
	case "be64dec":
		need(1)
		c.declareFun("be64.dec", []Sort{SStr}, SInt)
		return SVal{T: app(SInt, "be64.dec", arg(0).T)}
	case "be32enc", "be16enc":
		// big-endian fixed-width encodings (A-CODEC: decode(encode(x)) = x on the type's range, fixed length)
		need(1)
		w := n.Fn[2:4]
		c.declareBE(w)
		return SVal{T: app(SStr, "be"+w+".enc", arg(0).T), Type: types.Typ[types.String]}
	case "be32dec", "be16dec":
		need(1)
		w := n.Fn[2:4]
		c.declareBE(w)
		return SVal{T: app(SInt, "be"+w+".dec", arg(0).T)}
	case "strat":
		// strat(s, j): byte j of string s
		need(2)
		c.declareFun("gstr.at", []Sort{SStr, SInt}, SInt)
		return SVal{T: app(SInt, "gstr.at", arg(0).T, arg(1).T)}
	case "deref":
		// deref(p): the value a pointer to a non-struct type (e.g. *types.Address) points to
		need(1)
		p := arg(0)
		if p.Type == nil {
			return e.errf("deref of untyped value")
		}
		pt, ok := p.Type.Underlying().(*types.Pointer)
		if !ok {
			return e.errf("deref of non-pointer %s", p.Type)
		}
		loc := c.derefLoc(Val{T: p.T}, p.Type)
		return SVal{T: c.load(e.cur, loc), Type: pt.Elem()}
	case "visited":
		// visited(k): inside an invariant of a loop that ranges over a map - key k has already been handed out by the
		// iteration (the order is arbitrary: the model visits the keys in an unknown permutation)
		need(1)
		if e.fr == nil || len(e.fr.iters) == 0 {
			return e.errf("visited() outside a function that ranges over a map")
		}
		if len(e.fr.iters) > 1 {
			return e.errf("visited(): several map iterations in this function")
		}
		for _, rs := range e.fr.iters {
			k := c.mapKey(rs.mt, arg(0).T)
			return SVal{T: tSelect(e.heap(e.cur, rs.name), k)}
		}
	case "allof":
		// allof(T.f) or allof(pkg.T.f): field f of every object of struct type T (the whole field array), to state that
		// no object's f changed: allof(Model.List) == old(allof(Model.List))
		need(1)
		sel, ok := n.Args[0].(*ESel)
		if !ok {
			return e.errf("allof expects Type.field")
		}
		tyname := ""
		switch tx := sel.X.(type) {
		case *EIdent:
			tyname = tx.Name
		case *ESel:
			if p, ok := tx.X.(*EIdent); ok {
				tyname = p.Name + "." + tx.Name
			}
		}
		t := e.lookupType(tyname)
		if t == nil {
			return e.errf("allof: unknown type %q", tyname)
		}
		path, _, ok := fieldPath(t, sel.Name)
		if !ok || len(path) != 1 {
			return e.errf("allof: no direct field %s in %s", sel.Name, tyname)
		}
		return SVal{T: e.heap(e.cur, c.fieldArrayName(t, path[0]))}
	case "held", "wheld":
		// held(x.mu): the mutex field mu of x is in the ghost lock-set (read or write lock); wheld: the write lock
		need(1)
		sel, ok := n.Args[0].(*ESel)
		if !ok {
			return e.errf("%s expects x.mutexfield", n.Fn)
		}
		base := e.eval(sel.X)
		if base.Type == nil {
			return e.errf("%s: untyped owner", n.Fn)
		}
		bt := base.Type
		if pt, ok := bt.Underlying().(*types.Pointer); ok {
			bt = pt.Elem()
		}
		path, ft, ok := fieldPath(bt, sel.Name)
		if !ok {
			return e.errf("%s: no field %s", n.Fn, sel.Name)
		}
		if _, isPtr := ft.Underlying().(*types.Pointer); isPtr {
			v := e.eval(n.Args[0])
			return SVal{T: c.heldTerm(e.cur, "ptr", v.T, n.Fn == "wheld")}
		}
		if len(path) != 1 {
			return e.errf("%s: promoted mutex field %s not supported", n.Fn, sel.Name)
		}
		return SVal{T: c.heldTerm(e.cur, sanitize(c.fieldArrayName(bt, path[0])), base.T, n.Fn == "wheld")}
	case "allelems", "arrref":
		// allelems(s): the backing arrays of every slice with the element type of s (to state that a loop or call writes
		// one backing array only: allelems(a) == store(old(allelems(a)), arrref(a), select(allelems(a), arrref(a))));
		// arrref(s): the reference of the backing array of s
		need(1)
		sv := arg(0)
		if sv.Type == nil {
			return e.errf("%s of untyped value", n.Fn)
		}
		su, ok := sv.Type.Underlying().(*types.Slice)
		if !ok {
			return e.errf("%s expects a slice", n.Fn)
		}
		if n.Fn == "arrref" {
			return SVal{T: mk(SInt, "(s.arr "+sv.T.S+")")}
		}
		return SVal{T: e.heap(e.cur, c.elemNameT(su.Elem()))}
	case "allocated":
		need(1)
		a := arg(0).T
		if a.Sort == SSlice {
			// a slice is allocated when its backing array is
			a = mk(SInt, "(s.arr "+a.S+")")
		}
		return SVal{T: tLe(a, e.heap(e.cur, c.allocName()))}
	case "fresh":
		// fresh(x): x was allocated during the call (not allocated in the old state)
		need(1)
		if e.old == nil {
			return e.errf("fresh() needs an old state")
		}
		fa := arg(0).T
		if fa.Sort == SSlice {
			fa = mk(SInt, "(s.arr "+fa.S+")") // a slice is fresh when its backing array is
		}
		return SVal{T: tAnd(tGt(fa, e.heap(e.old, c.allocName())), tLe(fa, e.heap(e.cur, c.allocName())))}
	case "typeis":
		// typeis(x, T): dynamic type of interface x is T
		need(2)
		x := arg(0)
		id, ok := n.Args[1].(*EIdent)
		tyname := ""
		if ok {
			tyname = id.Name
		} else if s, ok := n.Args[1].(*ESel); ok {
			if p, ok := s.X.(*EIdent); ok {
				tyname = p.Name + "." + s.Name
			}
		} else if u, ok := n.Args[1].(*EUn); ok {
			_ = u
		} else if s, ok := n.Args[1].(*EStr); ok {
			tyname = s.V
		}
		if strings.HasPrefix(tyname, "ptr_") {
			tyname = "*" + tyname[4:]
		}
		t := e.lookupType(tyname)
		if t == nil {
			return e.errf("typeis: unknown type %q", tyname)
		}
		c.declareFun("itag", []Sort{SInt}, SInt)
		if _, isIface := t.Underlying().(*types.Interface); isIface {
			// typeis(x, I) for an interface type I: the dynamic type of x implements I (what x.(I) tests)
			return SVal{T: c.implementsTerm(x.T, t)}
		}
		return SVal{T: mk(SBool, fmt.Sprintf("(and (not (= %s 0)) (= (itag %s) %s))", x.T.S, x.T.S, c.typeTag(t).S))}
	case "as":
		// as(x, "T"): the value held by interface x, viewed as concrete type T (meaningful when typeis(x, "T"))
		need(2)
		x := arg(0)
		s, ok := n.Args[1].(*EStr)
		if !ok {
			return e.errf("as: second argument must be a type name in quotes")
		}
		t := e.lookupType(s.V)
		if t == nil {
			return e.errf("as: unknown type %q", s.V)
		}
		ts := c.sortOf(t)
		un := "unbox!" + sanitize(string(ts))
		c.declareFun(un, []Sort{SInt}, ts)
		return SVal{T: app(ts, un, x.T), Type: t}
	case "select":
		need(2)
		return SVal{T: tSelect(arg(0).T, arg(1).T)}
	case "store":
		need(3)
		a := arg(0)
		return SVal{T: tStore(a.T, arg(1).T, arg(2).T)}
	case "sliceof":
		// sliceof(arr, off, len)
		need(3)
		return SVal{T: mk(SSlice, fmt.Sprintf("(mk-slice %s %s %s)", arg(0).T.S, arg(1).T.S, arg(2).T.S))}
	}
	if t, ok := e.skolems[n.Fn]; ok && len(n.Args) == 0 {
		sv := SVal{T: t}
		if g, ok := c.prog.Ghosts[n.Fn]; ok {
			// keep the declared type of the ghost constant (a pointer-typed skolem is dereferenced in the clause)
			ge := &Env{c: c, vars: map[string]SVal{}, pkg: c.prog.typesPkg(g.Pkg), g: tTrue}
			if ge.pkg == nil {
				ge = e
			}
			if _, ty := ge.specSort(g.Ret); ty != nil {
				sv.Type = ty
			}
		}
		return sv
	}
	// ghost function
	if g, ok := c.prog.Ghosts[n.Fn]; ok {
		if len(n.Args) != len(g.Keys) {
			return e.errf("ghost %s expects %d keys", n.Fn, len(g.Keys))
		}
		t := e.heap(e.cur, c.ghostName(g, e))
		ge := &Env{c: c, vars: map[string]SVal{}, pkg: c.prog.typesPkg(g.Pkg), g: tTrue}
		if ge.pkg == nil {
			ge = e
		}
		for i := range n.Args {
			a := arg(i)
			// a concrete value given for an interface-typed key is the interface value holding it
			if a.Type != nil {
				if _, kt := ge.specSort(g.Keys[i].Type); kt != nil {
					_, keyIsIface := kt.Underlying().(*types.Interface)
					_, argIsIface := a.Type.Underlying().(*types.Interface)
					if keyIsIface && !argIsIface && a.T.S != "0" {
						a = SVal{T: c.boxIface(a.Type, a.T, e.cur, tTrue), Type: kt}
					}
				}
			}
			t = tSelect(t, c.wrapKey(a.T))
		}
		_, ty := ge.specSort(g.Ret)
		return SVal{T: t, Type: ty}
	}
	// spec function
	if sf, ok := c.prog.Specs[n.Fn]; ok {
		return e.callSpec(sf, n)
	}
	return e.errf("unknown function %q", n.Fn)
}

func (e *Env) callSpec(sf *SpecFunc, n *ECall) SVal {
	c := e.c
	if len(n.Args) != len(sf.Params) {
		return e.errf("spec %s expects %d arguments", sf.Name, len(sf.Params))
	}
	heapParams := c.declareSpec(sf, e)
	var args []*Term
	for i := range n.Args {
		a := e.eval(n.Args[i])
		ps, _ := e.specSort(sf.Params[i].Type)
		if ps == SReal && a.T.Sort == SInt {
			a = SVal{T: app(SReal, "to_real", a.T)}
		}
		args = append(args, a.T)
	}
	for _, hp := range heapParams {
		args = append(args, e.heap(e.cur, hp))
	}
	rs, rt := e.specSort(sf.Ret)
	if len(args) == 0 {
		return SVal{T: mk(rs, "spec!"+sf.Name), Type: rt}
	}
	return SVal{T: app(rs, "spec!"+sf.Name, args...), Type: rt}
}

// declareSpec emits the definition of a spec function once per unit and returns its implicit heap parameters.
func (c *Ctx) declareSpec(sf *SpecFunc, e *Env) []string {
	if c.specHeap == nil {
		c.specHeap = map[string][]string{}
	}
	if hp, ok := c.specHeap[sf.Name]; ok && c.specDeclared[sf.Name] {
		return hp
	}
	c.specDeclared[sf.Name] = true
	pk := c.prog.typesPkg(sf.Pkg)
	se := &Env{c: c, vars: map[string]SVal{}, pkg: pk, g: tTrue}
	var params []string
	var psorts []Sort
	for _, p := range sf.Params {
		s, ty := se.specSort(p.Type)
		name := "p!" + sanitize(p.Name)
		se.vars[p.Name] = SVal{T: mk(s, name), Type: ty}
		params = append(params, fmt.Sprintf("(%s %s)", name, s))
		psorts = append(psorts, s)
	}
	rs, _ := se.specSort(sf.Ret)
	if sf.Body == nil {
		c.declareFun("spec!"+sf.Name, psorts, rs)
		c.specHeap[sf.Name] = nil
		return nil
	}
	// heap parameters: iterate to a fixed point (recursive calls pass them through)
	var heapParams []string
	if prev, ok := c.specHeap[sf.Name]; ok {
		heapParams = prev
	}
	for iter := 0; iter < 4; iter++ {
		c.specHeap[sf.Name] = heapParams
		se.inSpec = &specTranslation{heapParams: map[string]*Term{}}
		se.cur = &State{heap: map[string]*Term{}}
		body := se.eval(sf.Body)
		var used []string
		for n := range se.inSpec.heapParams {
			used = append(used, n)
		}
		// also the heap params needed by recursive/other calls are already routed via e.heap
		sort.Strings(used)
		if strings.Join(used, ",") == strings.Join(heapParams, ",") {
			ps := append([]string(nil), params...)
			for _, hp := range heapParams {
				ps = append(ps, fmt.Sprintf("(h!%s %s)", sanitize(hp), c.heapSorts[hp]))
			}
			if body.T.Sort != rs && rs == SReal && body.T.Sort == SInt {
				body = SVal{T: app(SReal, "to_real", body.T)}
			}
			recursive := strings.Contains(body.T.S, "(spec!"+sf.Name+" ")
			switch {
			case len(ps) == 0:
				c.decls = append(c.decls, fmt.Sprintf("(define-fun spec!%s () %s %s)", sf.Name, rs, body.T.S))
			case !recursive:
				c.decls = append(c.decls, fmt.Sprintf("(define-fun spec!%s (%s) %s %s)", sf.Name, strings.Join(ps, " "), rs, body.T.S))
			default:
				// recursive spec function: uninterpreted symbol + unfolding axiom triggered by applications
				// (define-fun-rec made z3 time out on goals that this encoding decides in under a second)
				var sorts, names []string
				for _, p := range ps {
					inner := p[1 : len(p)-1]
					k := strings.Index(inner, " ")
					names = append(names, inner[:k])
					sorts = append(sorts, inner[k+1:])
				}
				c.decls = append(c.decls, fmt.Sprintf("(declare-fun spec!%s (%s) %s)", sf.Name, strings.Join(sorts, " "), rs))
				// unfolding is done by ground instantiation at the applications occurring in each query (BuildQuery),
				// to a fixed depth: predictable, and no matching loops
				if c.recSpecs == nil {
					c.recSpecs = map[string]*recSpec{}
				}
				c.recSpecs["spec!"+sf.Name] = &recSpec{params: names, body: body.T.S}
			}
			c.declared["spec!"+sf.Name] = rs
			return heapParams
		}
		heapParams = used
	}
	panic(specError{"spec function " + sf.Name + ": heap parameters do not stabilise"})
}
