package main

import (
	"fmt"
	"go/types"
	"os"
	"path/filepath"
	"sort"
	"strings"

	"golang.org/x/tools/go/packages"
	"golang.org/x/tools/go/ssa"
	"golang.org/x/tools/go/ssa/ssautil"
)

const modulePath = "github.com/MinterTeam/minter-go-node"

// Program is the loaded repository: SSA + contracts.
type Program struct {
	RepoDir   string
	Pkgs      []*packages.Package
	SSA       *ssa.Program
	SSAPkgs   map[string]*ssa.Package  // by import path
	Funcs     map[string]*ssa.Function // key: pkgpath + "::" + relname
	Contracts map[string]*Contract     // same key
	Specs     map[string]*SpecFunc     // by bare name (must be unique) and pkg-qualified "pkgname.name"
	Ghosts    map[string]*GhostDecl
	Lemmas    []*Lemma
	Axioms    []*Axiom
	Guards    []*GuardDecl
	Files     []*ContractFile
	LoadErrs  []string
	gtab      globalTable
	aliases   map[string]map[string]string
	purity    purityTable
}

func funcKey(fn *ssa.Function) string {
	if fn.Pkg == nil {
		// method of a dependency type or synthetic; use full string
		if fn.Signature != nil && fn.Signature.Recv() != nil {
			return fn.String()
		}
		return fn.String()
	}
	return fn.Pkg.Pkg.Path() + "::" + fn.RelString(fn.Pkg.Pkg)
}

// LoadProgram loads the given package patterns from repoDir with tag verif, builds SSA and parses contract files.
// overlay maps absolute file names to replacement contents (used for in-memory mutants).
func LoadProgram(repoDir string, patterns []string, overlay map[string][]byte, libDir string) (*Program, error) {
	cfg := &packages.Config{
		Mode:       packages.LoadSyntax,
		Dir:        repoDir,
		BuildFlags: []string{"-tags=verif", "-mod=mod"},
		Overlay:    overlay,
		Env:        append(os.Environ(), "GOFLAGS=-mod=mod", "GOPROXY=off", "GOSUMDB=off", "GOTOOLCHAIN=local"),
	}
	pkgs, err := packages.Load(cfg, patterns...)
	if err != nil {
		return nil, err
	}
	p := &Program{RepoDir: repoDir, Pkgs: pkgs, SSAPkgs: map[string]*ssa.Package{}, Funcs: map[string]*ssa.Function{},
		Contracts: map[string]*Contract{}, Specs: map[string]*SpecFunc{}, Ghosts: map[string]*GhostDecl{}}
	for _, pk := range pkgs {
		for _, e := range pk.Errors {
			p.LoadErrs = append(p.LoadErrs, e.Error())
		}
	}
	if len(p.LoadErrs) > 0 {
		return p, fmt.Errorf("package errors: %s", strings.Join(p.LoadErrs, "; "))
	}
	prog, spkgs := ssautil.Packages(pkgs, ssa.InstantiateGenerics|ssa.GlobalDebug)
	p.SSA = prog
	for _, sp := range spkgs {
		if sp != nil {
			sp.Build()
			p.SSAPkgs[sp.Pkg.Path()] = sp
		}
	}
	for fn := range ssautil.AllFunctions(prog) {
		if fn.Pkg == nil {
			continue
		}
		if _, ok := p.SSAPkgs[fn.Pkg.Pkg.Path()]; !ok {
			continue
		}
		p.Funcs[funcKey(fn)] = fn
	}
	// contract files in the repo
	for _, pk := range pkgs {
		if len(pk.GoFiles) == 0 {
			continue
		}
		dir := filepath.Dir(pk.GoFiles[0])
		cfile := filepath.Join(dir, "zz_contracts_verif.go")
		var text []byte
		if ov, ok := overlay[cfile]; ok {
			text = ov
		} else if b, err := os.ReadFile(cfile); err == nil {
			text = b
		} else {
			continue
		}
		cf, err := ParseContractText(pk.PkgPath, cfile, string(text))
		if err != nil {
			return p, err
		}
		p.addFile(cf)
	}
	// library specs
	if libDir != "" {
		ents, _ := os.ReadDir(libDir)
		for _, e := range ents {
			if !strings.HasSuffix(e.Name(), ".spec") {
				continue
			}
			fn := filepath.Join(libDir, e.Name())
			b, err := os.ReadFile(fn)
			if err != nil {
				return p, err
			}
			// first "//@ package <path>" line gives the package
			pkgPath := ""
			for _, l := range strings.Split(string(b), "\n") {
				t := strings.TrimSpace(l)
				if strings.HasPrefix(t, "//@ package ") {
					pkgPath = strings.TrimSpace(t[len("//@ package "):])
					break
				}
			}
			txt := strings.Replace(string(b), "//@ package "+pkgPath, "", 1)
			cf, err := ParseContractText(pkgPath, fn, txt)
			if err != nil {
				return p, err
			}
			for _, c := range cf.Contracts {
				c.Trusted = true
			}
			p.addFile(cf)
		}
	}
	for _, k := range p.SortedContractKeys() {
		p.resolveImplements(p.Contracts[k])
	}
	return p, nil
}

// importAlias resolves a name used for an imported package in the source files of package pkgPath.
func (p *Program) importAlias(pkgPath, name string) (string, bool) {
	if p.aliases == nil {
		p.aliases = map[string]map[string]string{}
		for _, pk := range p.Pkgs {
			m := map[string]string{}
			for _, f := range pk.Syntax {
				for _, imp := range f.Imports {
					path := strings.Trim(imp.Path.Value, "\"")
					if imp.Name != nil && imp.Name.Name != "_" && imp.Name.Name != "." {
						m[imp.Name.Name] = path
					}
				}
			}
			p.aliases[pk.PkgPath] = m
		}
	}
	path, ok := p.aliases[pkgPath][name]
	return path, ok
}

func (p *Program) addFile(cf *ContractFile) {
	p.Files = append(p.Files, cf)
	for _, c := range cf.Contracts {
		key := cf.Pkg + "::" + c.FuncName
		if c.Alt != "" {
			key += "#" + c.Alt // never matches a call-site lookup
		}
		p.Contracts[key] = c
	}
	for _, s := range cf.Specs {
		p.Specs[s.Name] = s
	}
	for _, g := range cf.Ghosts {
		p.Ghosts[g.Name] = g
	}
	p.Lemmas = append(p.Lemmas, cf.Lemmas...)
	p.Axioms = append(p.Axioms, cf.Axioms...)
	p.Guards = append(p.Guards, cf.Guards...)
}

// resolveImplements merges the interface contracts a method contract declares to implement into it: the interface's
// lets and requires come first (they may be relied on), its ensures are added as obligations of the body, and its modifies
// clause is the method's frame unless the method states its own.
func (p *Program) resolveImplements(c *Contract) {
	if c.implDone || len(c.Implements) == 0 {
		return
	}
	c.implDone = true
	for _, name := range c.Implements {
		ic, ok := p.Contracts[c.Pkg+"::"+name]
		if !ok {
			for k, cand := range p.Contracts {
				if strings.HasSuffix(k, "::"+name) {
					ic, ok = cand, true
				}
			}
		}
		if !ok {
			c.Ensures = append(c.Ensures, &Clause{Label: "implements", Src: "implements " + name + ": no such interface contract", E: &EIdent{Name: "no_such_interface_contract"}, File: c.File, Line: c.Line})
			continue
		}
		own := map[string]bool{}
		for _, l := range c.Lets {
			own[l.Name] = true
		}
		var lets []LetDef
		for _, l := range ic.Lets {
			if !own[l.Name] {
				lets = append(lets, l)
			}
		}
		c.Lets = append(lets, c.Lets...)
		var reqs []*Clause
		for _, r := range ic.Requires {
			cp := *r
			cp.FromIface = true
			reqs = append(reqs, &cp)
		}
		c.Requires = append(reqs, c.Requires...)
		for _, e := range ic.Ensures {
			cp := *e
			cp.FromIface = true
			if cp.Label != "" {
				cp.Label = "iface." + cp.Label
			}
			c.Ensures = append(c.Ensures, &cp)
		}
		if !c.ModSet && ic.ModSet {
			c.ModSet = true
			c.Modifies = append(c.Modifies, ic.Modifies...)
		}
	}
}

// ContractFor returns the contract attached to fn, if any.
func (p *Program) ContractFor(fn *ssa.Function) *Contract {
	if fn == nil {
		return nil
	}
	if fn.Pkg != nil {
		if c, ok := p.Contracts[funcKey(fn)]; ok {
			p.resolveImplements(c)
			return c
		}
		return nil
	}
	// dependency function: key by package path of the object
	if obj := fn.Object(); obj != nil && obj.Pkg() != nil {
		rel := fn.RelString(obj.Pkg())
		if c, ok := p.Contracts[obj.Pkg().Path()+"::"+rel]; ok {
			return c
		}
	}
	return nil
}

func (p *Program) SortedContractKeys() []string {
	var ks []string
	for k := range p.Contracts {
		ks = append(ks, k)
	}
	sort.Strings(ks)
	return ks
}

func (p *Program) typesPkg(path string) *types.Package {
	if sp, ok := p.SSAPkgs[path]; ok {
		return sp.Pkg
	}
	for _, pk := range p.SSA.AllPackages() {
		if pk.Pkg.Path() == path {
			return pk.Pkg
		}
	}
	return nil
}
