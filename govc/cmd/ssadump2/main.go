package main

import (
	"fmt"
	"os"
	"strings"

	"golang.org/x/tools/go/packages"
	"golang.org/x/tools/go/ssa"
	"golang.org/x/tools/go/ssa/ssautil"
)

func main() {
	cfg := &packages.Config{Mode: packages.LoadSyntax, Dir: "/repo", BuildFlags: []string{"-tags=verif", "-mod=mod"}}
	pkgs, err := packages.Load(cfg, os.Args[1])
	if err != nil {
		panic(err)
	}
	prog, spkgs := ssautil.Packages(pkgs, ssa.InstantiateGenerics|ssa.GlobalDebug)
	_ = prog
	for _, p := range spkgs {
		p.Build()
	}
	for _, p := range spkgs {
		for fn := range ssautil.AllFunctions(prog) {
			if fn.Pkg != p {
				continue
			}
			for _, want := range os.Args[2:] {
				if strings.HasSuffix(fn.String(), want) {
					fn.WriteTo(os.Stdout)
					fmt.Println()
				}
			}
		}
	}
}
